/-
A4 — the mathematical facts that /verif/pyvc hands to the SMT solver (pyvc/solve.py, class Z3Ctx), that
pyvc/sym.py uses as rewrite rules on symbolic reals, that pyvc/models.py uses as exact values, and that
harnesses cite through `ctx.axiom`, stated over Mathlib's real numbers and proved.  Checked with
`lean lean/Axioms.lean` (./tools/check_axioms.sh); each theorem names the place that uses it.
This file proves the *mathematics*; that the Python text states the same formulas is by inspection.
-/
import Mathlib

open Real

namespace PyvcAxioms

/-! ### solve.py `sqrt`: `s >= 0` and `r >= 0 -> s*s = r` -/
theorem sqrt_nonneg' (r : ℝ) : 0 ≤ Real.sqrt r := Real.sqrt_nonneg r
theorem sqrt_mul_self' (r : ℝ) (h : 0 ≤ r) : Real.sqrt r * Real.sqrt r = r := Real.mul_self_sqrt h

/-! ### solve.py `trunc` (Python `int()` on a real): an integer k with the stated bounds exists -/
theorem trunc_nonneg (r : ℝ) (_h : 0 ≤ r) : ∃ k : ℤ, (k : ℝ) ≤ r ∧ r < (k : ℝ) + 1 :=
  ⟨⌊r⌋, Int.floor_le r, Int.lt_floor_add_one r⟩
theorem trunc_neg (r : ℝ) (_h : r < 0) : ∃ k : ℤ, (k : ℝ) - 1 < r ∧ r ≤ (k : ℝ) :=
  ⟨⌈r⌉, by have := Int.ceil_lt_add_one r; linarith, Int.le_ceil r⟩

/-! ### solve.py: bounds on pi -/
theorem pi_lower : (3.14159265358979 : ℝ) < π := by
  have := Real.pi_gt_d20; norm_num at this ⊢; linarith
theorem pi_upper : π < (3.14159265358980 : ℝ) := by
  have := Real.pi_lt_d20; norm_num at this ⊢; linarith

/-! ### solve.py `sin`/`cos`: Pythagorean identity, range, signs on the quadrants of (-2π, 2π) -/
theorem sin_sq_add_cos_sq' (t : ℝ) : sin t * sin t + cos t * cos t = 1 := by
  have := Real.sin_sq_add_cos_sq t; nlinarith [this]
theorem sin_cos_range (t : ℝ) : -1 ≤ sin t ∧ sin t ≤ 1 ∧ -1 ≤ cos t ∧ cos t ≤ 1 :=
  ⟨Real.neg_one_le_sin t, Real.sin_le_one t, Real.neg_one_le_cos t, Real.cos_le_one t⟩

theorem sin_pos_q (t : ℝ) (h0 : 0 < t) (h1 : t < π) : 0 < sin t := Real.sin_pos_of_pos_of_lt_pi h0 h1
theorem sin_neg_q (t : ℝ) (h0 : π < t) (h1 : t < 2 * π) : sin t < 0 := by
  have h : 0 < sin (t - π) := Real.sin_pos_of_pos_of_lt_pi (by linarith) (by linarith)
  rw [Real.sin_sub_pi] at h; linarith
theorem sin_neg_q' (t : ℝ) (h0 : -π < t) (h1 : t < 0) : sin t < 0 :=
  Real.sin_neg_of_neg_of_neg_pi_lt h1 h0
theorem sin_pos_q' (t : ℝ) (h0 : -(2 * π) < t) (h1 : t < -π) : 0 < sin t := by
  have h : 0 < sin (t + 2 * π) := Real.sin_pos_of_pos_of_lt_pi (by linarith) (by linarith)
  rwa [Real.sin_add_two_pi] at h

theorem cos_pos_q (t : ℝ) (h0 : -(π / 2) < t) (h1 : t < π / 2) : 0 < cos t :=
  Real.cos_pos_of_mem_Ioo ⟨h0, h1⟩
theorem cos_neg_q (t : ℝ) (h0 : π / 2 < t) (h1 : t < 3 * π / 2) : cos t < 0 :=
  Real.cos_neg_of_pi_div_two_lt_of_lt h0 (by linarith)
theorem cos_neg_q' (t : ℝ) (h0 : -(3 * π / 2) < t) (h1 : t < -(π / 2)) : cos t < 0 := by
  have h : cos (-t) < 0 := Real.cos_neg_of_pi_div_two_lt_of_lt (by linarith) (by linarith)
  rwa [Real.cos_neg] at h
theorem cos_pos_q' (t : ℝ) (h0 : 3 * π / 2 < t) (h1 : t < 2 * π) : 0 < cos t := by
  have h : 0 < cos (t - 2 * π) := Real.cos_pos_of_mem_Ioo ⟨by linarith, by linarith⟩
  rwa [Real.cos_sub_two_pi] at h
theorem cos_pos_q'' (t : ℝ) (h0 : -(2 * π) < t) (h1 : t < -(3 * π / 2)) : 0 < cos t := by
  have h : 0 < cos (t + 2 * π) := Real.cos_pos_of_mem_Ioo ⟨by linarith, by linarith⟩
  rwa [Real.cos_add_two_pi] at h

/-! ### solve.py `tan` -/
theorem tan_mul_cos' (t : ℝ) (h : cos t ≠ 0) : tan t * cos t = sin t := Real.tan_mul_cos h

/-! ### solve.py `arccos`, sym.py rewrites `cos(arccos x) = x`, `sin(arccos x) = sqrt(1 - x^2)` -/
theorem arccos_range (x : ℝ) : 0 ≤ arccos x ∧ arccos x ≤ π := ⟨Real.arccos_nonneg x, Real.arccos_le_pi x⟩
theorem cos_arccos' (x : ℝ) (h0 : -1 ≤ x) (h1 : x ≤ 1) : cos (arccos x) = x := Real.cos_arccos h0 h1
theorem sin_arccos_nonneg (x : ℝ) : 0 ≤ sin (arccos x) :=
  Real.sin_nonneg_of_nonneg_of_le_pi (Real.arccos_nonneg x) (Real.arccos_le_pi x)
theorem sin_arccos' (x : ℝ) : sin (arccos x) = Real.sqrt (1 - x ^ 2) := Real.sin_arccos x

/-- `arccos (cos t)` on `[0, π]`, `[π, 2π]`, `[-π, 0]` -/
theorem arccos_cos_a (t : ℝ) (h0 : 0 ≤ t) (h1 : t ≤ π) : arccos (cos t) = t := Real.arccos_cos h0 h1
theorem arccos_cos_b (t : ℝ) (h0 : π ≤ t) (h1 : t ≤ 2 * π) : arccos (cos t) = 2 * π - t := by
  have h : cos t = cos (2 * π - t) := by rw [Real.cos_two_pi_sub]
  rw [h]; exact Real.arccos_cos (by linarith) (by linarith)
theorem arccos_cos_c (t : ℝ) (h0 : -π ≤ t) (h1 : t ≤ 0) : arccos (cos t) = -t := by
  have h : cos t = cos (-t) := by rw [Real.cos_neg]
  rw [h]; exact Real.arccos_cos (by linarith) (by linarith)

/-! ### sym.py rewrites: parity, values at 0 -/
theorem cos_neg' (a : ℝ) : cos (-a) = cos a := Real.cos_neg a
theorem sin_neg' (a : ℝ) : sin (-a) = -sin a := Real.sin_neg a
theorem cos_zero' : cos (0 : ℝ) = 1 := Real.cos_zero
theorem sin_zero' : sin (0 : ℝ) = 0 := Real.sin_zero
theorem arccos_one' : arccos (1 : ℝ) = 0 := Real.arccos_one
theorem arccos_neg_one' : arccos (-1 : ℝ) = π := Real.arccos_neg_one
theorem arccos_zero' : arccos (0 : ℝ) = π / 2 := Real.arccos_zero

/-! ### solve.py `pow` (Python `b ** n` on reals with positive base) -/
theorem rpow_pos' (b n : ℝ) (h : 0 < b) : 0 < b ^ n := Real.rpow_pos_of_pos h n
theorem rpow_zero' (b : ℝ) : b ^ (0 : ℝ) = 1 := Real.rpow_zero b
theorem rpow_one' (b : ℝ) : b ^ (1 : ℝ) = b := Real.rpow_one b
theorem one_rpow' (n : ℝ) : (1 : ℝ) ^ n = 1 := Real.one_rpow n

/-! ### models.py `exact_cos_sin`: values at multiples of π/12 with quadratic-surd values, and the
quarter-turn step used to move between quadrants `(c, s) -> (-s, c)` -/
theorem cos_pi_6 : cos (π / 6) = Real.sqrt 3 * (1 / 2) := by rw [Real.cos_pi_div_six]; ring
theorem sin_pi_6 : sin (π / 6) = 1 / 2 := Real.sin_pi_div_six
theorem cos_pi_4 : cos (π / 4) = Real.sqrt 2 * (1 / 2) := by rw [Real.cos_pi_div_four]; ring
theorem sin_pi_4 : sin (π / 4) = Real.sqrt 2 * (1 / 2) := by rw [Real.sin_pi_div_four]; ring
theorem cos_pi_3 : cos (π / 3) = 1 / 2 := Real.cos_pi_div_three
theorem sin_pi_3 : sin (π / 3) = Real.sqrt 3 * (1 / 2) := by rw [Real.sin_pi_div_three]; ring
theorem cos_pi_2 : cos (π / 2) = 0 := Real.cos_pi_div_two
theorem sin_pi_2 : sin (π / 2) = 1 := Real.sin_pi_div_two
theorem quarter_turn (t : ℝ) : cos (t + π / 2) = -sin t ∧ sin (t + π / 2) = cos t :=
  ⟨Real.cos_add_pi_div_two t, Real.sin_add_pi_div_two t⟩

/-! ### props/C18.py `ctx.axiom`: Cauchy–Schwarz for a unit vector, in coordinates -/
theorem cauchy_schwarz_unit (d1 d2 d3 n1 n2 n3 : ℝ) (hn : n1 * n1 + n2 * n2 + n3 * n3 = 1) :
    (d1 * n1 + d2 * n2 + d3 * n3) * (d1 * n1 + d2 * n2 + d3 * n3) ≤ d1 * d1 + d2 * d2 + d3 * d3 := by
  nlinarith [sq_nonneg (d1 * n2 - d2 * n1), sq_nonneg (d1 * n3 - d3 * n1), sq_nonneg (d2 * n3 - d3 * n2),
    sq_nonneg (d1 * n1 + d2 * n2 + d3 * n3)]

/-! ### props/C10.py: `deque.rotate(n)` on four items depends on `n mod 4` only — the index arithmetic -/
theorem rotate_mod (i n : ℤ) : (i - n) % 4 = (i - n % 4) % 4 := by omega

/-! ### poly.py square-factor extraction: `sqrt(u^2 * w) = |u| * sqrt(w)` -/
theorem sqrt_sq_mul (u w : ℝ) : Real.sqrt (u ^ 2 * w) = |u| * Real.sqrt w := by
  rw [Real.sqrt_mul (sq_nonneg u), Real.sqrt_sq_eq_abs]

end PyvcAxioms
