"""Scenario shared by C01, C02, C04 (round 5): a model whose chops are size-based (the cell count and the
expansions depend on the edge length) is written, vertices of the assembled mesh are moved so that the chopped
edges change length unevenly, and the mesh is written again.  Returned: the mesh after the second write, the
exception of the second write (or None) and a freshly built model of the moved geometry, graded."""
import os
import tempfile

CASES = ["two-in-y", "two-in-y-neighbour-first", "three-in-y-one-chopped"]


def _write(mesh):
    fd, path = tempfile.mkstemp(suffix=".bmd", dir=os.environ.get("TMPDIR"))
    os.close(fd)
    os.remove(path)
    try:
        mesh.write(path)
        with open(path) as fh:
            return fh.read(), None
    except Exception as e:  # noqa: BLE001
        return None, e
    finally:
        if os.path.exists(path):
            os.remove(path)


def _model(case, stretch, preserve):
    import classy_blocks as cb
    from classy_blocks.mesh import Mesh

    n = 3 if case.startswith("three") else 2
    ops = []
    for j in range(n):
        # boxes stacked in y; the face x = 1 is moved to x = 1 + stretch*(1 + y + z/2): every x edge gets its own length
        pts = []
        for (x, y, z) in [(0, 0, 0), (1, 0, 0), (1, 1, 0), (0, 1, 0), (0, 0, 1), (1, 0, 1), (1, 1, 1), (0, 1, 1)]:
            yy = float(j + y)
            xx = float(x) + (stretch * (1 + yy + z / 2) if x else 0.0)
            pts.append([xx, yy, float(z)])
        from classy_blocks.construct.flat.face import Face
        from classy_blocks.construct.operations.loft import Loft

        ops.append(Loft(Face(pts[:4]), Face(pts[4:])))
    ops[0].chop(0, start_size=0.02, c2c_expansion=1.15, preserve=preserve)
    ops[0].chop(1, count=2)
    ops[0].chop(2, start_size=0.1)
    for op in ops[1:]:
        op.chop(1, count=3)
    mesh = Mesh()
    for op in (ops[::-1] if "neighbour-first" in case else ops):
        mesh.add(op)
    return mesh


def write_move_write(case, preserve="start_size", stretch=0.6):
    mesh = _model(case, 0.0, preserve)
    text1, exc1 = _write(mesh)
    for v in mesh.vertices:
        x, y, z = (float(c) for c in v.position)
        if abs(x - 1.0) < 1e-9:
            v.move_to([1.0 + stretch * (1 + y + z / 2), y, z])
    text2, exc2 = _write(mesh)
    fresh = _model(case, stretch, preserve)
    text3, exc3 = _write(fresh)
    return {"mesh": mesh, "fresh": fresh, "first": (text1, exc1), "second": (text2, exc2), "fresh_written": (text3, exc3)}
