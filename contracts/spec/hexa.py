"""The blockMesh hexahedron convention, written from the OpenFOAM user guide figure (§4.3.1
"blockMesh"), *not* imported from classy_blocks/util/constants.py.

Local vertex numbering: 0-1-2-3 is the bottom quad (x3 = min), 4-5-6-7 the top quad with
vertex i+4 above vertex i.  x1 runs 0→1, x2 runs 1→2 (= 0→3), x3 runs 0→4.
Sides are named as in classy_blocks' documentation ("front: along first edge of a face,
right: along second edge, back opposite front, left opposite right")."""

# the 12 edges with their direction as the user specifies data on them:
# bottom i→(i+1)%4, top 4+i→4+(i+1)%4, side i→i+4
EDGE_SPEC = (
    [(i, (i + 1) % 4) for i in range(4)]
    + [(4 + i, 4 + (i + 1) % 4) for i in range(4)]
    + [(i, i + 4) for i in range(4)]
)
EDGE_SETS = [frozenset(e) for e in EDGE_SPEC]

FACE_SPEC = {
    "bottom": frozenset({0, 1, 2, 3}),
    "top": frozenset({4, 5, 6, 7}),
    "front": frozenset({0, 1, 5, 4}),   # through edge 0-1 (x2 = min)
    "right": frozenset({1, 2, 6, 5}),   # through edge 1-2 (x1 = max)
    "back": frozenset({2, 3, 7, 6}),    # through edge 2-3 (x2 = max)
    "left": frozenset({3, 0, 4, 7}),    # through edge 3-0 (x1 = min)
}
SIDES = list(FACE_SPEC)

# blockMesh's order of the 12 entries of edgeGrading: x1-edges 0-1 3-2 7-6 4-5,
# x2-edges 0-3 1-2 5-6 4-7, x3-edges 0-4 1-5 2-6 3-7
EDGE_GRADING_ORDER = [
    (0, 1), (3, 2), (7, 6), (4, 5),
    (0, 3), (1, 2), (5, 6), (4, 7),
    (0, 4), (1, 5), (2, 6), (3, 7),
]


def is_edge(a, b) -> bool:
    return frozenset((a, b)) in EDGE_SETS and a != b


def edges_of_face(side):
    """The 4 hex edges (as frozensets) bounding a side."""
    f = FACE_SPEC[side]
    return [e for e in EDGE_SETS if e <= f]


def is_quad_cycle(corners, side) -> bool:
    """`corners` (4 local indices in order) walk around the side along hex edges."""
    cs = list(corners)
    return (
        len(cs) == 4
        and frozenset(cs) == FACE_SPEC[side]
        and all(is_edge(cs[i], cs[(i + 1) % 4]) for i in range(4))
    )


def corners_on(side):
    return sorted(FACE_SPEC[side])


def sides_at_corner(c):
    return [s for s in SIDES if c in FACE_SPEC[s]]
