"""A small independent reader of the blockMeshDict grammar (OpenFOAM user guide §4.3): tokens,
( ... ) lists, { ... } dictionaries, // and /* */ comments, `key value;` entries and the section
keywords.  Written from the documented format, not from classy_blocks' writers."""
import re

_TOKEN = re.compile(r"\s*(?:(//[^\n]*)|(/\*.*?\*/)|([(){};])|([^\s(){};]+))", re.S)


def tokens(text):
    out = []
    pos = 0
    while pos < len(text):
        m = _TOKEN.match(text, pos)
        if not m:
            if text[pos:].strip() == "":
                break
            raise ValueError(f"cannot tokenise at {pos}: {text[pos:pos + 30]!r}")
        pos = m.end()
        if m.group(1) or m.group(2):
            continue
        out.append(m.group(3) or m.group(4))
    return out


def _parse_list(toks, i):
    assert toks[i] == "("
    i += 1
    items = []
    while toks[i] != ")":
        if toks[i] == "(":
            sub, i = _parse_list(toks, i)
            items.append(sub)
        elif toks[i] == "{":
            sub, i = _parse_dict(toks, i)
            items.append(sub)
        else:
            items.append(toks[i])
            i += 1
    return items, i + 1


def _parse_dict(toks, i):
    assert toks[i] == "{"
    i += 1
    d = {}
    while toks[i] != "}":
        key = toks[i]
        i += 1
        vals = []
        while toks[i] not in (";", "}"):
            if toks[i] == "(":
                sub, i = _parse_list(toks, i)
                vals.append(sub)
            elif toks[i] == "{":
                sub, i = _parse_dict(toks, i)
                vals.append(sub)
                break
            else:
                vals.append(toks[i])
                i += 1
        if i < len(toks) and toks[i] == ";":
            i += 1
        d[key] = vals[0] if len(vals) == 1 else vals
    return d, i + 1


def parse(text):
    """Top level of a blockMeshDict: returns {keyword: value}."""
    toks = tokens(text)
    i = 0
    top = {}
    order = []
    while i < len(toks):
        key = toks[i]
        i += 1
        vals = []
        while i < len(toks) and toks[i] != ";":
            if toks[i] == "(":
                sub, i = _parse_list(toks, i)
                vals.append(sub)
                if key in ("vertices", "blocks", "edges", "boundary", "faces", "mergePatchPairs", "patches"):
                    break
            elif toks[i] == "{":
                sub, i = _parse_dict(toks, i)
                vals.append(sub)
                break
            else:
                vals.append(toks[i])
                i += 1
        if i < len(toks) and toks[i] == ";":
            i += 1
        top[key] = vals[0] if len(vals) == 1 else vals
        order.append(key)
    top["__order__"] = order
    return top


def vertices(top):
    """[(x, y, z, projected_to or None)]"""
    out = []
    items = top["vertices"]
    i = 0
    while i < len(items):
        if items[i] == "project":
            xyz, geo = items[i + 1], items[i + 2]
            out.append((xyz[0], xyz[1], xyz[2], list(geo)))
            i += 3
        else:
            xyz = items[i]
            out.append((xyz[0], xyz[1], xyz[2], None))
            i += 1
    return out


def blocks(top):
    """[{vertices: [8 tokens], zone: str, counts: [3], grading_kind, grading: [...]}]"""
    out = []
    items = top["blocks"]
    i = 0
    while i < len(items):
        assert items[i] == "hex", items[i]
        vs = items[i + 1]
        j = i + 2
        zone = ""
        if not isinstance(items[j], list):
            zone = items[j]
            j += 1
        counts = items[j]
        kind = items[j + 1]
        grading = items[j + 2]
        out.append({"vertices": vs, "zone": zone, "counts": counts, "grading_kind": kind, "grading": grading})
        i = j + 3
    return out


def edges(top):
    out = []
    items = top["edges"]
    i = 0
    while i < len(items):
        kind, a, b = items[i], items[i + 1], items[i + 2]
        data = items[i + 3]
        out.append({"kind": kind, "v1": a, "v2": b, "data": data})
        i += 4
    return out


def boundary(top):
    """[{name, type, settings: {..}, faces: [[4 tokens]]}]"""
    out = []
    items = top["boundary"]
    i = 0
    while i < len(items):
        name, d = items[i], items[i + 1]
        out.append({"name": name, "type": d.get("type"), "faces": d.get("faces", []),
                    "settings": {k: v for k, v in d.items() if k not in ("type", "faces")}})
        i += 2
    return out


def faces(top):
    out = []
    items = top.get("faces", [])
    i = 0
    while i < len(items):
        assert items[i] == "project"
        out.append({"quad": items[i + 1], "geometry": items[i + 2]})
        i += 3
    return out
