"""Dual-use vector helpers for contract clauses (work on floats and on proxies)."""
import math

import numpy as np

from pyvc import shims
from pyvc.sym import SReal


def cross(a, b):
    return shims.cross(np.asarray(a), np.asarray(b))


def dot(a, b):
    a, b = np.asarray(a), np.asarray(b)
    r = 0
    for x, y in zip(a.flat, b.flat):
        r = r + x * y
    return r


def norm2(a):
    return dot(a, a)


def sqrt(v):
    if isinstance(v, SReal):
        return v.sqrt()
    return math.sqrt(v)


def norm(a):
    return sqrt(norm2(a))


def dist2(a, b):
    return norm2(np.asarray(a) - np.asarray(b))


def unit(a):
    return np.asarray(a) / norm(a)


def rot(axis_unit, angle_cos, angle_sin, v):
    """Rodrigues rotation of v about the unit vector axis_unit (cos/sin of the angle given)."""
    k, v = np.asarray(axis_unit), np.asarray(v)
    return v * angle_cos + cross(k, v) * angle_sin + k * dot(k, v) * (1 - angle_cos)


def reflect(v, normal, origin):
    """Mirror image of point v in the plane through origin with (non-unit) normal."""
    n, v, o = np.asarray(normal), np.asarray(v), np.asarray(origin)
    return v - n * (2 * dot(v - o, n) / dot(n, n))


def quat_frame(q):
    """Three mutually orthogonal vectors of equal length |q|² (columns of the un-normalised
    rotation matrix of the quaternion q = (q0,q1,q2,q3)); every right-handed orthogonal frame of
    equal-length vectors arises this way (surjective, polynomial: no square roots)."""
    a, b, c, d = q
    e1 = np.array([a * a + b * b - c * c - d * d, 2 * (b * c + a * d), 2 * (b * d - a * c)], dtype=object)
    e2 = np.array([2 * (b * c - a * d), a * a - b * b + c * c - d * d, 2 * (c * d + a * b)], dtype=object)
    e3 = np.array([2 * (b * d + a * c), 2 * (c * d - a * b), a * a - b * b - c * c + d * d], dtype=object)
    return e1, e2, e3
