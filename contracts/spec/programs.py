"""Random / enumerated user scripts over the public API, together with the model-side record of
what the user declared (used by C05, C06, C12).  A Program is built from a seed; everything the
written file must contain is recorded independently of the library's internal lists."""
import random

import numpy as np

from contracts.spec import hexa

SIDES = hexa.SIDES


class Program:
    def __init__(self, seed, offset_scale=False):
        import classy_blocks as cb

        self.cb = cb
        self.rng = random.Random(seed)
        rng = self.rng
        self.mesh = cb.Mesh()
        self.entities = []       # as added to the mesh
        self.ops = []            # flat list of operations in depot order
        self.deleted = []        # operations deleted
        self.patch_kind = {}     # name -> (kind, settings)
        self.default_patch = None
        self.merged = []
        self.geometry = {}
        self.settings = {}
        # placement: optionally far from the origin with small features
        self.origin = np.zeros(3)
        self.size = 1.0
        if offset_scale:
            self.origin = np.array([rng.choice((-1, 1)) * 10 ** rng.uniform(2, 3.7) for _ in range(3)])
            self.size = 10 ** rng.uniform(-2.5, 0)
        self.cells = []
        self.build()

    # -- helpers
    def P(self, p):
        return self.origin + np.asarray(p, dtype=float) * self.size

    def box(self, cell):
        cb = self.cb
        lo, hi = self.P(cell), self.P(np.asarray(cell) + 1)
        return cb.Box(lo, hi)

    def chop_all(self, op, counts=None):
        rng = self.rng
        for ax in range(3):
            n = counts[ax] if counts else rng.randint(1, 4)
            op.chop(ax, count=n)

    def build(self):
        rng, cb = self.rng, self.cb
        kind = rng.choice(["boxes", "boxes", "boxes+extrude", "grid-shape", "cylinder", "separate"])
        self.kind = kind
        m = self.mesh
        if kind in ("boxes", "boxes+extrude", "separate"):
            if kind == "separate":
                cells = [(0, 0, 0), (3, 0, 0), (0, 3, 0)][: rng.randint(2, 3)]
            else:
                pool = [(0, 0, 0), (1, 0, 0), (0, 1, 0), (1, 1, 0), (0, 0, 1), (2, 0, 0)]
                cells = [pool[0]] + rng.sample(pool[1:], rng.randint(0, 3))
            cz = rng.randint(1, 3)
            for c in cells:
                op = self.box(c)
                self.chop_all(op, counts=[2, 3, cz])
                self.add(op)
            self.cells = cells
            if kind == "boxes+extrude":
                base = self.P([5, 0, 0])
                s = self.size
                face = cb.Face([base, base + [s, 0, 0], base + [s, s, 0], base + [0, s, 0]],
                               [cb.Arc(base + [0.5 * s, -0.2 * s, 0]), None, cb.Spline([base + [1.1 * s, s, 0], base + [0.5 * s, 1.2 * s, 0]]), None])
                ex = cb.Extrude(face, s)
                self.chop_all(ex)
                self.add(ex)
        elif kind == "grid-shape":
            g = cb.Grid(self.P([0, 0, 0]), self.P([3, 2, 0]), 3, 2)
            shape = cb.ExtrudedShape(g, self.size)
            nz = rng.randint(1, 3)
            for op in shape.operations:   # every operation carries its own counts (so any one may be deleted)
                op.chop(0, count=2)
                op.chop(1, count=2)
                op.chop(2, count=nz)
            self.add(shape)
        else:
            cyl = cb.Cylinder(self.P([0, 0, 0]), self.P([0, 0, 2]), self.P([1, 0, 0]))
            cyl.chop_axial(count=3)
            cyl.chop_radial(count=2)
            cyl.chop_tangential(count=3)
            cyl.set_outer_patch("wall_cyl")
            cyl.set_start_patch("inlet")
            self.add(cyl)
        # declarations
        names = ["p_a", "p_b", "p_c"]
        for op in self.ops:
            if self.kind == "cylinder":
                break
            for side in rng.sample(SIDES, rng.randint(0, 2)):
                op.set_patch(side, rng.choice(names))
            if rng.random() < 0.3:
                op.set_cell_zone("zone" + str(rng.randint(0, 1)))
            if rng.random() < 0.25:
                geo = "geo" + str(rng.randint(0, 1))
                op.project_side(rng.choice(SIDES), geo, edges=rng.random() < 0.5, points=rng.random() < 0.5)
                self.geometry[geo] = ["type plane", "planeType pointAndNormal", "point (0 0 0)", "normal (0 0 1)"]
            if rng.random() < 0.15:
                op.project_corner(rng.randint(0, 7), "geo0")
                self.geometry["geo0"] = ["type plane", "planeType pointAndNormal", "point (0 0 0)", "normal (0 0 1)"]
        if self.kind == "separate" and len(self.ops) >= 2 and rng.random() < 0.7:
            self.ops[0].set_patch("right", "m_master")
            self.ops[1].set_patch("left", "m_slave")
            m.merge_patches("m_master", "m_slave")
            self.merged.append(["m_master", "m_slave"])
        for g, spec in self.geometry.items():
            m.add_geometry({g: spec})
        # deletions (never the only operation; keep every family chopped: all ops carry chops)
        if len(self.ops) > 1 and rng.random() < 0.5 and self.kind != "cylinder":
            victim = rng.choice(self.ops[1:] if self.kind != "grid-shape" else self.ops)
            m.delete(victim)
            self.deleted.append(victim)
        used = sorted({n for op in self.live_ops for n in op.patch_names.values()})
        for n in used:
            if rng.random() < 0.5:
                st = rng.choice([None, ["inGroups (x y)"], ["transform none", "neighbourPatch q"]])
                m.modify_patch(n, rng.choice(["wall", "patch", "symmetry"]), st)
                self.patch_kind[n] = [m.patch_list.get(n).kind, list(st) if st is not None else list(self.patch_kind.get(n, ["patch", []])[1])]
                if rng.random() < 0.4:
                    # a later modification with an empty settings list clears the settings
                    m.modify_patch(n, "wall", [])
                    self.patch_kind[n] = ["wall", []]
        if rng.random() < 0.5:
            self.default_patch = ("walls", rng.choice(["wall", "patch"]))
            m.set_default_patch(*self.default_patch)
        if rng.random() < 0.4:
            self.settings["scale"] = rng.choice([0.001, 2])
            m.settings["scale"] = self.settings["scale"]
        if rng.random() < 0.2:
            self.settings["mergeType"] = "points"
            m.settings["mergeType"] = "points"
    def add(self, entity):
        self.mesh.add(entity)
        self.entities.append(entity)
        from classy_blocks.construct.operations.operation import Operation

        self.ops += [entity] if isinstance(entity, Operation) else list(entity.operations)

    @property
    def live_ops(self):
        return [op for op in self.ops if not any(op is d for d in self.deleted)]

    def declared_patches(self):
        """{name: [(op, side)]} for non-deleted operations, in first-appearance order."""
        out = {}
        for op in self.live_ops:
            for side, name in op.patch_names.items():
                out.setdefault(name, []).append((op, side))
        return out
