"""Small hexahedral assemblies for the grading / assembly properties (C01, C02, C04, C05, C12).
Boxes are axis-aligned cells of an integer lattice, optionally renumbered by one of the 24
orientation-preserving corner renumberings, so that local block directions differ between
neighbours (aligned / anti-aligned / crossed wires)."""
import itertools

import numpy as np

COORDS = [(0, 0, 0), (1, 0, 0), (1, 1, 0), (0, 1, 0), (0, 0, 1), (1, 0, 1), (1, 1, 1), (0, 1, 1)]


def hex_rotations():
    perms = []
    for axes in itertools.permutations(range(3)):
        for signs in itertools.product((1, -1), repeat=3):
            m = np.zeros((3, 3), dtype=int)
            for r in range(3):
                m[r, axes[r]] = signs[r]
            if round(np.linalg.det(m)) != 1:
                continue
            p = []
            for c in COORDS:
                v = m @ (np.array(c) * 2 - 1)
                p.append(COORDS.index(tuple(((v + 1) // 2).astype(int))))
            perms.append(tuple(p))
    return sorted(set(perms))


ROT = hex_rotations()


def box_points(cell, size=(1.0, 1.0, 1.0), rot=0, jitter=None):
    """8 corner points of lattice cell `cell` (i, j, k), renumbered by rotation index `rot`."""
    base = np.array([[(cell[d] + c[d]) * size[d] for d in range(3)] for c in COORDS], dtype=float)
    if jitter is not None:
        base = base + jitter
    return base[list(ROT[rot])]


def local_axis_of_global(rot, g):
    """(local axis, sign): which local block direction of a box numbered by `rot` runs along the
    global lattice direction g, and whether it runs the same way (+1) or opposite (-1)."""
    pts = np.array(COORDS, dtype=float)[list(ROT[rot])]
    dirs = {0: pts[1] - pts[0], 1: pts[3] - pts[0], 2: pts[4] - pts[0]}
    for a, d in dirs.items():
        if abs(d[g]) > 0.5:
            return a, int(np.sign(d[g]))
    raise AssertionError


def make_operation(points):
    from classy_blocks.construct.flat.face import Face
    from classy_blocks.construct.operations.operation import Operation

    return Operation(Face(points[:4]), Face(points[4:]))


def shared_edges(blocks):
    """{frozenset(vertex index pair): [(block index, axis index, wire), ...]} over all blocks."""
    out = {}
    for b in blocks:
        for ax in b.axes:
            for w in ax.wires:
                key = frozenset((w.vertices[0].index, w.vertices[1].index))
                out.setdefault(key, []).append((b.index, ax.index, w))
    return out


def families(blocks):
    """Families of block directions that must share a count: (block index, axis index) nodes joined
    when two directions own a wire on the same vertex pair (same edge) - and, inside one block, the
    four wires of a direction already belong together.  Independent union-find (spec side)."""
    parent = {}

    def find(x):
        while parent.setdefault(x, x) != x:
            parent[x] = parent[parent[x]]
            x = parent[x]
        return x

    def union(a, b):
        parent[find(a)] = find(b)

    edges = {}
    for b in blocks:
        for ax in b.axes:
            find((b.index, ax.index))
            for w in ax.wires:
                key = frozenset((w.vertices[0].index, w.vertices[1].index))
                edges.setdefault(key, []).append((b.index, ax.index))
    for key, nodes in edges.items():
        for n in nodes[1:]:
            union(nodes[0], n)
    fam = {}
    for node in list(parent):
        fam.setdefault(find(node), []).append(node)
    return list(fam.values())
