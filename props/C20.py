"""C20 — construction and life-cycle preconditions are enforced symmetrically.

Obligation shape: "normal return ⇒ Pre(args)" (equivalently ¬Pre ⇒ raises), with Pre written
from the docstring / property text in its symmetric form; one named case per side of every
boundary so that a one-sided guard fails in exactly one case."""
import numpy as np

from classy_blocks.base import exceptions as X
from classy_blocks.construct import edges as E
from classy_blocks.construct.array import Array
from classy_blocks.construct.flat.face import Face
from classy_blocks.construct.flat.sketches import annulus as annulus_mod
from classy_blocks.construct.flat.sketches.annulus import Annulus
from classy_blocks.construct.flat.sketches.disk import Disk
from classy_blocks.construct.operations.operation import Operation
from classy_blocks.construct.point import Point
from classy_blocks.construct import shape as shape_mod
from classy_blocks.construct.shapes import cylinder as cyl_mod, frustum as fru_mod, rings as ring_mod, elbow as elb_mod
from classy_blocks.construct.shapes.round import RoundSolidShape
from classy_blocks.construct.curves.discrete import DiscreteCurve
from classy_blocks.grading.chop import Chop
from classy_blocks.grading.grading import Grading
from classy_blocks.items.block import Block
from classy_blocks.items.side import Side
from classy_blocks.items.vertex import Vertex
from classy_blocks.items.edges.arcs import angle as angle_mod
from classy_blocks.mesh import Mesh
from classy_blocks.optimize import grid as grid_mod, junction as junction_mod, links as links_mod
from classy_blocks.optimize.clamps.free import FreeClamp
from classy_blocks.util.frame import Frame
from classy_blocks.util.constants import TOL
from contracts.spec import hexa
from pyvc.harness import proof
from pyvc.sym import And, Not, Or

# "one of the library's creation errors or a value, key or runtime error"; IndexError (the sequence
# sibling of KeyError, both LookupError) is accepted as a rejection as well.
REJECT = (X.ShapeCreationError, shape_mod.ShapeCreationError, ValueError, LookupError, RuntimeError, X.CornerPairError,
          junction_mod.ClampExistsError, grid_mod.NoJunctionError, grid_mod.InvalidLinkError)


def rejected(exc):
    return exc is not None and isinstance(exc, REJECT)


def decide(ctx, name, exc, pre_holds):
    """¬Pre ⇒ rejected with one of the allowed classes;  Pre ⇒ accepted."""
    ctx.prove(name + "/rejected-iff-precondition-violated", rejected(exc) == (not pre_holds), exc=repr(exc))


def sym_points(ctx, n, k, name="p"):
    return [[ctx.real(f"{name}{i}_{j}") for j in range(k)] for i in range(n)]


# ------------------------------------------------------------------------------ enumerated shapes
@proof("C20", "Point.__init__", cases=[0, 1, 2, 3, 4, 5], functions=["classy_blocks.construct.point:Point.__init__"])
def point_init(ctx):
    n = ctx.case
    _, exc = ctx.call(Point, [ctx.real(f"x{i}") for i in range(n)])
    decide(ctx, "coords", exc, n == 3)


@proof("C20", "Array.__init__", cases=[(1, 3), (2, 3), (3, 3), (2, 2), (2, 4), (3, 2)],
       functions=["classy_blocks.construct.array:Array.__init__"])
def array_init(ctx):
    n, k = ctx.case
    _, exc = ctx.call(Array, sym_points(ctx, n, k))
    decide(ctx, "shape", exc, n >= 2 and k == 3)


@proof("C20", "Face.__init__", cases=[("points", 3, 3), ("points", 4, 3), ("points", 5, 3), ("points", 4, 2), ("points", 4, 4),
                                        ("edges", 3), ("edges", 4), ("edges", 5), ("edges", 0)],
       functions=["classy_blocks.construct.flat.face:Face.__init__"])
def face_init(ctx):
    if ctx.case[0] == "points":
        _, n, k = ctx.case
        _, exc = ctx.call(Face, sym_points(ctx, n, k))
        decide(ctx, "points-shape", exc, n == 4 and k == 3)
    else:
        ne = ctx.case[1]
        _, exc = ctx.call(Face, sym_points(ctx, 4, 3), [None] * ne)
        decide(ctx, "edge-count", exc, ne == 4)


@proof("C20", "Face.add_edge", cases=[-5, -2, -1, 0, 1, 2, 3, 4, 5, 9],
       functions=["classy_blocks.construct.flat.face:Face.add_edge"])
def face_add_edge(ctx):
    c = ctx.case
    face = Face(sym_points(ctx, 4, 3))
    before = list(face.edges)
    _, exc = ctx.call(face.add_edge, c, E.Arc([0.0, 0.0, 1.0]))
    decide(ctx, "corner", exc, 0 <= c <= 3)
    if not (0 <= c <= 3):
        ctx.prove("corner/nothing-changed-when-rejected", all(a is b for a, b in zip(face.edges, before)))


@proof("C20", "Project.labels", cases=[("init", k) for k in range(0, 5)] + [("add", a, b) for a in (1, 2) for b in (1, 2, 3)] + [("init-str", 1)],
       functions=["classy_blocks.construct.edges:Project.__init__", "classy_blocks.construct.edges:Project.add_label",
                  "classy_blocks.construct.edges:Project.check_length"])
def project_labels(ctx):
    names = ["a", "b", "c", "d", "e", "f"]
    if ctx.case[0] == "init":
        k = ctx.case[1]
        _, exc = ctx.call(E.Project, names[:k])
        decide(ctx, "surfaces", exc, 1 <= k <= 2)
    elif ctx.case[0] == "init-str":
        _, exc = ctx.call(E.Project, "a")
        decide(ctx, "surfaces", exc, True)
    else:
        _, a, b = ctx.case
        p = E.Project(names[:a])
        _, exc = ctx.call(p.add_label, names[a:a + b])
        decide(ctx, "surfaces-after-add", exc, a + b <= 2)


def mk_op(ctx):
    return Operation(Face(sym_points(ctx, 4, 3, "b")), Face(sym_points(ctx, 4, 3, "t")))


@proof("C20", "Operation.add_side_edge", cases=[-5, -2, -1, 0, 3, 4, 5, 9],
       functions=["classy_blocks.construct.operations.operation:Operation.add_side_edge"])
def op_add_side_edge(ctx):
    c = ctx.case
    op = mk_op(ctx)
    _, exc = ctx.call(op.add_side_edge, c, E.Arc([0.0, 0.0, 1.0]))
    decide(ctx, "corner", exc, 0 <= c <= 3)


@proof("C20", "Operation.chop", cases=[-2, -1, 0, 1, 2, 3, 4],
       functions=["classy_blocks.construct.operations.operation:Operation.chop"])
def op_chop(ctx):
    a = ctx.case
    op = mk_op(ctx)
    _, exc = ctx.call(op.chop, a, count=3)
    decide(ctx, "axis", exc, a in (0, 1, 2))


@proof("C20", "Operation.project_edge/corner-range",
       cases=[(a, b) for a in (-9, -8, -1, 8, 9) for b in range(8)] + [(b, a) for a in (-9, -8, -1, 8, 9) for b in range(8)],
       functions=["classy_blocks.construct.operations.operation:Operation.project_edge", "classy_blocks.util.frame:Frame.__getitem__"])
def op_project_edge_range(ctx):
    a, b = ctx.case
    op = mk_op(ctx)
    _, exc = ctx.call(op.project_edge, a, b, "G")
    decide(ctx, "corners-in-0..7", exc, False)


@proof("C20", "Operation.project_corner", cases=[-9, -1, 0, 7, 8, 12],
       functions=["classy_blocks.construct.operations.operation:Operation.project_corner"])
def op_project_corner(ctx):
    c = ctx.case
    op = mk_op(ctx)
    _, exc = ctx.call(op.project_corner, c, "G")
    decide(ctx, "corner", exc, 0 <= c <= 7)


@proof("C20", "Operation.get_index_from_side", cases=hexa.SIDES + ["up", ""],
       functions=["classy_blocks.construct.operations.operation:Operation.get_index_from_side"])
def op_index_from_side(ctx):
    s = ctx.case
    r, exc = ctx.call(Operation.get_index_from_side, s)
    decide(ctx, "side-name", exc, s in ("front", "right", "back", "left"))
    if exc is None:
        ctx.prove("side-name/index-names-the-edge-it-runs-through",
                  frozenset((r, (r + 1) % 4)) <= hexa.FACE_SPEC[s])


@proof("C20", "Operation.from_series", cases=[0, 1, 2, 3, 4],
       functions=["classy_blocks.construct.operations.operation:Operation.from_series"])
def op_from_series(ctx):
    n = ctx.case
    faces = [Face(sym_points(ctx, 4, 3, f"f{i}_")) for i in range(n)]
    _, exc = ctx.call(Operation.from_series, faces)
    decide(ctx, "face-count", exc, n >= 2)


@proof("C20", "Frame.add_beam", cases=[(a, b) for a in range(-1, 9) for b in range(-1, 9)],
       functions=["classy_blocks.util.frame:Frame.add_beam"])
def frame_add_beam(ctx):
    a, b = ctx.case
    fr = Frame()
    _, exc = ctx.call(fr.add_beam, a, b, "x")
    decide(ctx, "pair", exc, 0 <= a <= 7 and 0 <= b <= 7 and hexa.is_edge(a, b))


def vertices(n):
    return [Vertex([float(i), 0.0, 0.0], i) for i in range(n)]


@proof("C20", "Side.__init__", cases=[(o, n) for o in hexa.SIDES[:2] + ["up"] for n in (7, 8, 9)],
       functions=["classy_blocks.items.side:Side.__init__"])
def side_init(ctx):
    o, n = ctx.case
    _, exc = ctx.call(Side, o, vertices(n))
    decide(ctx, "vertices-and-orient", exc, n == 8 and o in hexa.SIDES)


@proof("C20", "Block.add_edge", cases=[(a, b) for a in range(-9, 10) for b in range(-9, 10)],
       functions=["classy_blocks.items.block:Block.add_edge"], note="exhaustive over corner numbers -9..9 x -9..9 (negative numbers would wrap around)")
def block_add_edge(ctx):
    a, b = ctx.case
    blk = Block(0, vertices(8))
    _, exc = ctx.call(blk.add_edge, a, b, blk.wires[0][1].edge)
    decide(ctx, "corners", exc, 0 <= a <= 7 and 0 <= b <= 7 and hexa.is_edge(a, b))


# ------------------------------------------------------------------------------ symbolic boundaries
@proof("C20", "Grading.add_chop/length_ratio", functions=["classy_blocks.grading.grading:Grading.add_chop"],
       uses=["Chop.calculate (stub: returns (count, 1); its own contract is C03's)"])
def grading_add_chop(ctx):
    r = ctx.real("ratio")
    g = Grading(ctx.real("length", lo=0.001))
    chop = Chop(length_ratio=r, count=4)
    with ctx.stub(Chop, "calculate", lambda self, length: (4, 1)):
        _, exc = ctx.call(g.add_chop, chop)
    ctx.prove("accepted-implies-ratio-in-(0,1]", exc is not None or And(ctx.lt(0, r), ctx.le(r, 1)))
    ctx.prove("rejected-implies-ratio-outside", exc is None or (isinstance(exc, ValueError) and bool(Or(r <= 0, r > 1))))


class _Fake:
    def __init__(self, **kw):
        self.__dict__.update(kw)


def _round_ctor(ctx, mod, cls, name, exc_class, extra=()):
    """SemiCylinder/Cylinder/Frustum: |axis · radius_vector| <= TOL, both signs."""
    p1, p2 = ctx.vec("a"), ctx.vec("b")
    axis = p2 - p1
    side = ctx.case

    def perpendicular(rng):  # bounded tier: a radius point with |axis . (r - a)| <= TOL (uniform draws never are)
        ax = np.asarray(axis, dtype=float)
        w = np.cross(ax, [rng.gauss(0, 1) for _ in range(3)])
        along = rng.choice([0.0, 0.0, rng.uniform(-0.95, 0.95), 0.95, -0.95]) * TOL / max(np.dot(ax, ax), 1e-12)
        return np.asarray(p1, dtype=float) + w / max(np.linalg.norm(w), 1e-12) * rng.uniform(0.3, 3) + along * ax

    rp = ctx.vec_from("r", perpendicular) if side == "perpendicular" else ctx.vec("r")
    diff = np.dot(axis, rp - p1)
    if side == "lean-forward":
        ctx.assume(diff > TOL)
    elif side == "lean-backward":
        ctx.assume(diff < -TOL)
    else:
        ctx.assume(And(diff <= TOL, diff >= -TOL))
    ctx.assume(np.dot(axis, axis) > 0.01)
    ctx.assume(np.dot(rp - p1, rp - p1) > 0.01)
    with ctx.stub(RoundSolidShape, "__init__", lambda self, *a, **k: None), \
            ctx.stub(cls, "sketch_class", staticmethod(lambda *a: None)):
        _, exc = ctx.call(cls, p1, p2, rp, *extra)
    if side == "perpendicular":
        ctx.prove("perpendicular-accepted", exc is None, exc=repr(exc))
    else:
        ctx.prove("not-perpendicular-rejected", isinstance(exc, exc_class), exc=repr(exc))


SIDES3 = ["lean-forward", "lean-backward", "perpendicular"]
NOTE_STUB = "RoundSolidShape.__init__ / sketch constructor stubbed in the proof (guard must precede them); run natively in replay"


@proof("C20", "SemiCylinder.__init__", cases=SIDES3, functions=["classy_blocks.construct.shapes.cylinder:SemiCylinder.__init__"],
       uses=["RoundSolidShape.__init__ (stub: no-op)"], note=NOTE_STUB, samples=12)
def semicylinder_init(ctx):
    _round_ctor(ctx, cyl_mod, cyl_mod.SemiCylinder, "SemiCylinder", X.CylinderCreationError)


@proof("C20", "Cylinder.__init__", cases=SIDES3, functions=["classy_blocks.construct.shapes.cylinder:SemiCylinder.__init__"],
       uses=["RoundSolidShape.__init__ (stub: no-op)"], note=NOTE_STUB, samples=12)
def cylinder_init(ctx):
    _round_ctor(ctx, cyl_mod, cyl_mod.Cylinder, "Cylinder", X.CylinderCreationError)


@proof("C20", "Frustum.__init__", cases=SIDES3, functions=["classy_blocks.construct.shapes.frustum:Frustum.__init__"],
       uses=["RoundSolidShape.__init__ (stub: no-op)", "Disk.__init__ (stub)"], note=NOTE_STUB, samples=12)
def frustum_init(ctx):
    with ctx.stub(fru_mod, "Disk", lambda *a: None):
        _round_ctor(ctx, fru_mod, fru_mod.Frustum, "Frustum", X.FrustumCreationError, extra=(ctx.real("r2", lo=0.05),))


def _fake_round_source(ctx):
    sk = lambda n: _Fake(center=ctx.vec(n + "c"), radius_point=ctx.vec(n + "r"), normal=ctx.vec(n + "n"),
                         outer_radius_point=ctx.vec(n + "o"), inner_radius=ctx.real(n + "ir", lo=0.01), n_segments=8,
                         inner_radius_point=ctx.vec(n + "i"), radius=ctx.real(n + "rad", lo=0.01))
    return _Fake(sketch_1=sk("s1"), sketch_2=sk("s2"))


def _chain(ctx, cls, exc_class, extra=()):
    length = ctx.real("length")
    src = _fake_round_source(ctx)
    ctx.assume(np.dot(src.sketch_1.normal, src.sketch_1.normal) > 0.01)
    ctx.assume(np.dot(src.sketch_2.normal, src.sketch_2.normal) > 0.01)
    start = ctx.case
    with ctx.stub(cls, "__init__", lambda self, *a, **k: None, only_symbolic=False):
        _, exc = ctx.call(cls.chain, src, length, *extra, start_face=start)
    ctx.prove("negative-length-rejected", Or(length >= 0, isinstance(exc, exc_class)), exc=repr(exc))
    ctx.prove("non-negative-length-accepted", Or(length < 0, exc is None), exc=repr(exc))


@proof("C20", "Cylinder.chain", cases=[False, True], functions=["classy_blocks.construct.shapes.cylinder:Cylinder.chain"],
       uses=["Cylinder.__init__ (stub: no-op; its precondition is proved separately)"])
def cylinder_chain(ctx):
    _chain(ctx, cyl_mod.Cylinder, X.CylinderCreationError)


@proof("C20", "Frustum.chain", cases=[False, True], functions=["classy_blocks.construct.shapes.frustum:Frustum.chain"],
       uses=["Frustum.__init__ (stub: no-op)"])
def frustum_chain(ctx):
    _chain(ctx, fru_mod.Frustum, X.FrustumCreationError, extra=(ctx.real("r2", lo=0.05),))


@proof("C20", "ExtrudedRing.chain", cases=[False, True], functions=["classy_blocks.construct.shapes.rings:ExtrudedRing.chain"],
       uses=["ExtrudedRing.__init__ (stub: no-op)"])
def ring_chain(ctx):
    _chain(ctx, ring_mod.ExtrudedRing, X.ExtrudedRingCreationError)


@proof("C20", "ExtrudedRing.contract", functions=["classy_blocks.construct.shapes.rings:ExtrudedRing.contract"],
       uses=["ExtrudedRing.__init__ → Annulus.__init__ (stub; equality inner == outer is rejected by Annulus' own contract)"])
def ring_contract(ctx):
    r = ctx.real("inner_radius")
    src = _fake_round_source(ctx)
    with ctx.stub(ring_mod.ExtrudedRing, "__init__", lambda self, *a, **k: None, only_symbolic=False):
        _, exc = ctx.call(ring_mod.ExtrudedRing.contract, src, r)
    ctx.prove("non-positive-radius-rejected", Or(r > 0, isinstance(exc, X.ExtrudedRingCreationError)))
    ctx.prove("radius-above-source-rejected", Or(r <= src.sketch_1.inner_radius, isinstance(exc, X.ExtrudedRingCreationError)))
    ctx.prove("valid-radius-accepted", Or(r <= 0, r > src.sketch_1.inner_radius, exc is None))


@proof("C20", "Cylinder.fill", cases=[4, 7, 8, 9, 12], functions=["classy_blocks.construct.shapes.cylinder:Cylinder.fill"],
       uses=["Cylinder.__init__ (stub: no-op)"])
def cylinder_fill(ctx):
    src = _fake_round_source(ctx)
    src.sketch_1.n_segments = ctx.case
    with ctx.stub(cyl_mod.Cylinder, "__init__", lambda self, *a, **k: None, only_symbolic=False):
        _, exc = ctx.call(cyl_mod.Cylinder.fill, src)
    decide(ctx, "eight-segments", exc, ctx.case == 8)


@proof("C20", "Elbow.chain/source-sketch-type", cases=["disk", "other"], functions=["classy_blocks.construct.shapes.elbow:Elbow.chain"],
       uses=["Elbow.__init__ (stub: no-op)"])
def elbow_chain(ctx):
    src = _fake_round_source(ctx)
    if ctx.case == "disk":
        d = Disk.__new__(Disk)
        d.__dict__.update(src.sketch_1.__dict__)
        with ctx.stub(Disk, "center", src.sketch_1.center, only_symbolic=False), \
                ctx.stub(Disk, "radius_point", src.sketch_1.radius_point, only_symbolic=False), \
                ctx.stub(Disk, "normal", src.sketch_1.normal, only_symbolic=False):
            src.sketch_1 = d
            with ctx.stub(elb_mod.Elbow, "__init__", lambda self, *a, **k: None, only_symbolic=False):
                _, exc = ctx.call(elb_mod.Elbow.chain, src, 1.0, [0.0, 0.0, 0.0], [0.0, 0.0, 1.0], 1.0)
    else:
        with ctx.stub(elb_mod.Elbow, "__init__", lambda self, *a, **k: None, only_symbolic=False):
            _, exc = ctx.call(elb_mod.Elbow.chain, src, 1.0, [0.0, 0.0, 0.0], [0.0, 0.0, 1.0], 1.0)
    decide(ctx, "disk-sketch", exc, ctx.case == "disk")


@proof("C20", "LoftedShape.__init__/face-counts", cases=[(1, 1, None), (1, 2, None), (2, 1, None), (2, 2, 2), (2, 2, 1), (2, 2, 3),
                                                         (2, 2, [2]), (2, 2, [3]), (2, 2, [1]), (2, 2, [2, 2]), (2, 2, [2, 3]), (2, 2, [1, 2])],
       functions=["classy_blocks.construct.shape:LoftedShape.__init__"], note="mid sketch absent, a single sketch, or a list of one or two sketches")
def lofted_init(ctx):
    n1, n2, nm = ctx.case

    class Sk:
        def __init__(self, n, tag):
            self.faces = [Face(sym_points(ctx, 4, 3, f"{tag}{i}_")) for i in range(n)]
            self.grid = [self.faces]

    class L(shape_mod.LoftedShape):
        pass

    if isinstance(nm, list):
        mid = [Sk(k, f"m{q}") for q, k in enumerate(nm)]
        mids = nm
    else:
        mid = None if nm is None else Sk(nm, "m")
        mids = [] if nm is None else [nm]
    _, exc = ctx.call(L, Sk(n1, "a"), Sk(n2, "b"), mid)
    decide(ctx, "equal-face-counts", exc, n1 == n2 and all(k == n1 for k in mids))


@proof("C20", "Annulus.__init__", cases=["inner>outer", "inner==outer", "inner<outer", "tilt+", "tilt-"],
       functions=["classy_blocks.construct.flat.sketches.annulus:Annulus.__init__"], samples=10,
       note="geometry family: centre c, normal along z, outer radius point (R, 0, h) + c; 4 segments")
def annulus_init(ctx):
    c = ctx.vec("c")
    R = ctx.real("R", lo=0.1, hi=10)
    ri = ctx.real("ri", lo=0.01, hi=20)
    case = ctx.case
    h = 0
    if case == "inner>outer":
        ctx.assume(ri > R)
    elif case == "inner==outer":
        ri = R
    elif case == "inner<outer":
        ctx.assume(ri < R)
    else:
        ctx.assume(ri < R)
        h = ctx.real("h", lo=0.001, hi=1) if case == "tilt+" else ctx.real("h", lo=-1, hi=-0.001)
    outer = c + np.array([R, 0, h], dtype=object if ctx.symbolic else float)
    _, exc = ctx.call(Annulus, c, outer, [0.0, 0.0, 1.0], ri, 4)
    decide(ctx, "radii-and-perpendicularity", exc, case == "inner<outer")


@proof("C20", "RotationLink.__init__/leader-on-axis", functions=["classy_blocks.optimize.links:RotationLink.__init__"],
       inlined=["functions.unit_vector", "functions.norm(model)", "RotationLink._get_radius"])
def rotation_link_init(ctx):
    leader, follower, axis, origin = ctx.vec("l"), ctx.vec("f"), ctx.vec("a"), ctx.vec("o")
    ctx.assume(np.dot(axis, axis) > 0.01)
    link, exc = ctx.call(links_mod.RotationLink, leader, follower, axis, origin)
    # distance of the leader from the axis, from the definition (squared, no square roots)
    d = leader - origin
    a2 = np.dot(axis, axis)
    dist2 = np.dot(d, d) - np.dot(d, axis) ** 2 / a2
    if exc is None:
        r = link.orig_leader_radius
        ctx.lemma("radius-vector-has-the-axis-distance-as-length", ctx.eq(np.dot(r, r), dist2))
        ctx.prove("accepted-implies-leader-off-axis", ctx.le(TOL * TOL, dist2))
    else:
        ctx.prove("rejection-is-a-value-error", isinstance(exc, ValueError), exc=repr(exc))


@proof("C20", "arc_from_theta/angle-range", cases=["<=-2pi", "(-2pi,0)", "0", "(0,2pi)", ">=2pi"],
       functions=["classy_blocks.items.edges.arcs.angle:arc_from_theta"])
def arc_from_theta_range(ctx):
    import math

    case = ctx.case
    two_pi = 2 * math.pi
    if case == "0":
        ang = 0.0
    else:
        ang = ctx.real("angle", lo=-10, hi=10)
        ctx.assume({"<=-2pi": ang <= -two_pi, "(-2pi,0)": And(ang > -two_pi, ang < 0), "(0,2pi)": And(ang > 0, ang < two_pi),
                    ">=2pi": ang >= two_pi}[case])
    p1, p2 = ctx.vec("p"), ctx.vec("q")
    ax = ctx.vec("a")
    with ctx.stub(angle_mod.f, "arc_mid", lambda *a: None):
        _, exc = ctx.call(angle_mod.arc_from_theta, p1, p2, ang, ax)
    decide(ctx, "angle", exc, case in ("(-2pi,0)", "(0,2pi)"))


@proof("C20", "CurveBase._check_param", functions=["classy_blocks.construct.curves.curve:CurveBase._check_param"])
def curve_check_param(ctx):
    curve = DiscreteCurve([[0.0, 0.0, 0.0], [1.0, 0.0, 0.0], [2.0, 1.0, 0.0], [3.0, 1.0, 1.0]])
    t = ctx.real("t", lo=-5, hi=9)
    lo, hi = curve.bounds
    r, exc = ctx.call(curve._check_param, t)
    ctx.prove("accepted-implies-inside-bounds", exc is not None or And(ctx.le(lo, t), ctx.le(t, hi)))
    ctx.prove("rejected-implies-outside", exc is None or (isinstance(exc, ValueError) and bool(Or(t < lo, t > hi))))
    ctx.prove("bounds-are-the-index-range", (lo, hi) == (0, 3))


# ------------------------------------------------------------------------------ life cycle / optimiser
@proof("C20", "Mesh.grade-backport-before-assembly",
       cases=[(m, h) for m in ("grade", "backport") for h in ("fresh", "after-clear", "after-clear-twice")],
       functions=["classy_blocks.mesh:Mesh.grade", "classy_blocks.mesh:Mesh.backport", "classy_blocks.mesh:Mesh.is_assembled",
                  "classy_blocks.mesh:Mesh.clear"])
def mesh_lifecycle(ctx):
    method, history = ctx.case
    m = Mesh()
    op = mk_op(ctx) if history == "fresh" else Operation(Face(np.array(CUBE8[:4])), Face(np.array(CUBE8[4:])))
    op.chop(0, count=2)
    op.chop(1, count=2)
    op.chop(2, count=2)
    m.add(op)
    if history != "fresh":
        m.assemble()
        m.clear()
        if history == "after-clear-twice":
            m.assemble()
            m.grade()
            m.clear()
    _, exc = ctx.call(getattr(m, method))
    ctx.prove("raises-runtime-error", isinstance(exc, RuntimeError), exc=repr(exc))
    ctx.prove("nothing-assembled", not m.is_assembled and m.block_list.blocks == [] and m.vertex_list.vertices == [])


CUBE8 = [[0.0, 0.0, 0.0], [1.0, 0.0, 0.0], [1.0, 1.0, 0.0], [0.0, 1.0, 0.0],
         [0.0, 0.0, 1.0], [1.0, 0.0, 1.0], [1.0, 1.0, 1.0], [0.0, 1.0, 1.0]]


def _grid(ctx):
    pts = np.array([[0.0, 0.0, 0.0], [1.0, 0.0, 0.0], [1.0, 1.0, 0.0], [0.0, 1.0, 0.0], [2.0, 0.0, 0.0], [2.0, 1.0, 0.0]])
    return grid_mod.QuadGrid(pts, [[0, 1, 2, 3], [1, 4, 5, 2]])


@proof("C20", "Junction/GridBase.add_clamp", cases=[("second-clamp",), ("no-vertex", 0.001), ("no-vertex", -0.3), ("no-vertex", 0.4), ("ok",)],
       functions=["classy_blocks.optimize.junction:Junction.add_clamp", "classy_blocks.optimize.grid:GridBase.add_clamp"])
def add_clamp(ctx):
    g = _grid(ctx)
    if ctx.case[0] == "no-vertex":
        off = ctx.case[1]
        _, exc = ctx.call(g.add_clamp, FreeClamp([1.0 + off, 0.0, 0.0]))
        ctx.prove("unmatched-clamp-rejected", isinstance(exc, grid_mod.NoJunctionError), exc=repr(exc))
        ctx.prove("no-clamp-registered", g.clamps == [])
        return
    g.add_clamp(FreeClamp([1.0, 0.0, 0.0]))
    if ctx.case[0] == "second-clamp":
        _, exc = ctx.call(g.add_clamp, FreeClamp([1.0, 0.0, 0.0]))
        ctx.prove("second-clamp-rejected", isinstance(exc, junction_mod.ClampExistsError), exc=repr(exc))
    ctx.prove("exactly-one-clamp-on-that-junction", len(g.clamps) == 1 and g.junctions[1].clamp is g.clamps[0])


@proof("C20", "GridBase.add_link", cases=["ok", "no-leader", "no-follower", "same"],
       functions=["classy_blocks.optimize.grid:GridBase.add_link"])
def add_link(ctx):
    g = _grid(ctx)
    L = {"ok": ([1.0, 0.0, 0.0], [2.0, 0.0, 0.0]), "no-leader": ([1.5, 0.0, 0.0], [2.0, 0.0, 0.0]),
         "no-follower": ([1.0, 0.0, 0.0], [2.5, 0.0, 0.0]), "same": ([1.0, 0.0, 0.0], [1.0, 0.0, 0.0])}[ctx.case]
    _, exc = ctx.call(g.add_link, links_mod.TranslationLink(*L))
    if ctx.case == "ok":
        ctx.prove("accepted", exc is None and len(g.junctions[1].links) == 1 and g.junctions[1].links[0].follower_index == 4)
    else:
        ctx.prove("rejected", isinstance(exc, grid_mod.InvalidLinkError), exc=repr(exc))
        ctx.prove("no-link-registered", all(len(j.links) == 0 for j in g.junctions))
