"""C16 — curve points, lengths and closest-parameter queries are mutually consistent."""
import math

import numpy as np

import classy_blocks as cb
from classy_blocks.construct import edges as E
from classy_blocks.construct.curves.analytic import AnalyticCurve, CircleCurve, LineCurve
from classy_blocks.construct.curves.discrete import DiscreteCurve
from classy_blocks.construct.curves.interpolated import LinearInterpolatedCurve, SplineInterpolatedCurve
from classy_blocks.items.edges.factory import factory
from classy_blocks.items.vertex import Vertex
from contracts.spec import geom as G
from pyvc.harness import proof
from pyvc.sym import And, Not, Or

CU = "classy_blocks.construct.curves."
N = 5
PAIRS = [(a, b) for a in range(N) for b in range(N)]


def polyline(points):
    total = 0
    for p, q in zip(points[:-1], points[1:]):
        total = total + G.norm(np.asarray(q) - np.asarray(p))
    return total


@proof("C16", "DiscreteCurve/discretize-and-length", cases=PAIRS, functions=[CU + "discrete:DiscreteCurve.discretize", CU + "discrete:DiscreteCurve.get_length",
                                                                             CU + "discrete:DiscreteCurve.get_point", CU + "curve:CurveBase._get_params",
                                                                             "classy_blocks.util.functions:polyline_length"],
       note="five symbolic points; every ordered pair of integer parameters, forwards and backwards (also ending at 0)", samples=3)
def discrete(ctx):
    a, b = ctx.case
    P = ctx.mat("p", N)
    curve = DiscreteCurve(P)
    ctx.prove("bounds-are-the-index-range", tuple(curve.bounds) == (0, N - 1))
    pts = curve.discretize(a, b)
    step = 1 if b >= a else -1
    want = [P[k] for k in range(a, b + step, step)]
    ctx.prove("points-start-and-end-at-the-curves-points-in-order", len(pts) == len(want) and And([ctx.eq(x, y) for x, y in zip(pts, want)]))
    ctx.prove("end-points-are-get_point-of-the-parameters", ctx.eq(pts[0], curve.get_point(a)) and ctx.eq(pts[-1], curve.get_point(b)))
    if a != b:
        L = curve.get_length(a, b)
        ctx.prove("length-is-the-polyline-length", ctx.eq(L, polyline(want), tol=1e-9))
        for c in range(min(a, b) + 1, max(a, b)):
            ctx.prove("length-additive-over-a-split", ctx.eq(L, curve.get_length(a, c) + curve.get_length(c, b), tol=1e-9), split=c)
    else:
        _, exc = ctx.call(curve.get_length, a, b)
        ctx.prove("a-single-point-has-no-polyline", exc is None or isinstance(exc, ValueError))
    for bad in (-1, N):
        _, exc = ctx.call(curve.discretize, bad, b)
        ctx.prove("parameters-outside-the-bounds-rejected", isinstance(exc, ValueError), param=bad)


@proof("C16", "OnCurveEdge/written-points-and-length", cases=[(i, j) for i in range(4) for j in range(4) if i != j],
       functions=["classy_blocks.items.edges.curve:OnCurveEdge.point_array", "classy_blocks.items.edges.curve:OnCurveEdge.length",
                  "classy_blocks.items.edges.curve:OnCurveEdge.param_start", "classy_blocks.items.edges.curve:OnCurveEdge.param_end",
                  "classy_blocks.construct.edges:OnCurve.discretize"], samples=3,
       note="edge snapped to a discrete curve through 4 symbolic points; vertices on curve points i and j in either order")
def oncurve_edge(ctx):
    i, j = ctx.case
    pts = ctx.mat("c", 4)
    for a in range(4):
        for b in range(a):
            ctx.assume(G.dist2(pts[a], pts[b]) > 0.01)
    edge = factory.create(Vertex(pts[i], 0), Vertex(pts[j], 1), E.OnCurve(DiscreteCurve(pts), n_points=5))
    step = 1 if j > i else -1
    inner = list(edge.point_array)
    want = [pts[k] for k in range(i + step, j, step)]
    ctx.prove("written-points-lie-on-the-curve-between-the-two-vertices-in-order",
              len(inner) == len(want) and And([ctx.eq(x, y) for x, y in zip(inner, want)]))
    ctx.prove("length-is-the-curve-length-between-them", ctx.eq(edge.length, polyline([pts[k] for k in range(i, j + step, step)]), tol=1e-9))


# ------------------------------------------------------------------------------ bounded: interpolated / analytic curves
def _curve(kind, rng):
    if kind in ("linear", "spline"):
        n = rng.randint(4, 7)
        pts = np.cumsum(np.array([[rng.uniform(0.2, 2.5), rng.uniform(-1.5, 1.5), rng.uniform(-1, 1)] for _ in range(n)]), axis=0)
        eq = rng.random() < 0.7
        cls = LinearInterpolatedCurve if kind == "linear" else SplineInterpolatedCurve
        return cls(pts, equalize=eq), pts
    if kind == "line":
        p1, p2 = np.array([rng.uniform(-3, 3) for _ in range(3)]), np.array([rng.uniform(-3, 3) for _ in range(3)])
        lo = rng.choice([0.0, -0.5, 0.3])
        return LineCurve(p1, p2, (lo, lo + rng.uniform(0.5, 2))), None
    if kind == "circle":
        o = np.array([rng.uniform(-3, 3) for _ in range(3)])
        r = np.array([rng.uniform(0.5, 2), rng.uniform(-1, 1), rng.uniform(-1, 1)])
        n = np.cross(r, [rng.uniform(-1, 1), rng.uniform(-1, 1), 1.5])
        lo = rng.choice([0.0, -1.0, 0.7])
        return CircleCurve(o, o + r, n, (lo, lo + rng.uniform(1.0, 3.0))), None
    if kind == "helix":
        rad, pitch = rng.uniform(0.8, 2), rng.uniform(0.35, 0.6)
        lo = rng.choice([-6.0, 2.0, 0.0])
        return AnalyticCurve(lambda t: np.array([rad * math.cos(t), rad * math.sin(t), pitch * t]), (lo, lo + rng.uniform(9, 13))), None
    a, b, w = rng.uniform(0.5, 2), rng.uniform(0.2, 1), rng.uniform(1, 3)
    lo = rng.choice([0.0, -2.0, 1.0])
    return AnalyticCurve(lambda t: np.array([a * t, b * math.sin(w * t), 0.3 * t * t]), (lo, lo + rng.uniform(2, 5))), None


@proof("C16", "bounded/curves-consistent", cases=["linear", "spline", "line", "circle", "analytic", "helix"], level="B", samples=40,
       functions=[CU + "interpolated:InterpolatedCurveBase.get_length", CU + "interpolators:InterpolatorBase.params", CU + "curve:FunctionCurveBase.discretize",
                  CU + "curve:FunctionCurveBase.get_closest_param", CU + "curve:CurveBase.get_closest_param", CU + "analytic:AnalyticCurve.get_length"],
       note="bounded stand-in only (scipy interpolators/minimiser are external): random point sets with uneven spacing, parameter "
            "pairs in either order, queries near the curve away from the ends")
def curves_bounded(ctx):
    rng = ctx.rng
    kind = ctx.case
    curve, pts = _curve(kind, rng)
    lo, hi = curve.bounds
    a, b = sorted([rng.uniform(lo, hi), rng.uniform(lo, hi)])
    if rng.random() < 0.5:
        a, b = b, a
    d = curve.discretize(a, b, 9)
    ctx.prove("discretisation-starts-and-ends-at-the-parameter-points",
              np.allclose(d[0], curve.get_point(a), atol=1e-9) and np.allclose(d[-1], curve.get_point(b), atol=1e-9) and len(d) == 9)
    if pts is not None:
        params = curve.function.params
        ctx.prove("interpolated-curve-passes-through-its-defining-points", all(np.allclose(curve.get_point(t), p, atol=1e-8) for t, p in zip(params, pts)))
        ctx.prove("parameters-normalised-and-increasing", abs(params[0]) < 1e-12 and abs(params[-1] - 1) < 1e-12 and all(np.diff(params) > 0))
    # additivity of length over a split
    lo_, hi_ = min(a, b), max(a, b)
    if hi_ - lo_ > 1e-3:
        c = rng.uniform(lo_, hi_)
        if lo_ < 0.0 < hi_ and rng.random() < 0.5:
            c = 0.0     # a parameter that is exactly zero is a parameter like any other
        whole = curve.get_length(lo_, hi_)
        # spline/analytic lengths are chord approximations (through the defining points / 100 samples)
        # analytic lengths are chord approximations over 100 samples; the spline-interpolated length is a chord
        # approximation through the defining points only, for which no tolerance can be stated: not checked
        tol = 1e-9 if kind in ("linear", "line") else 2e-3
        back = curve.get_length(hi_, lo_)
        ctx.prove("length-is-the-same-in-either-parameter-order", abs(back - whole) <= 1e-9 * max(1.0, abs(whole)), forwards=whole, backwards=back)
        ctx.prove("length-is-positive", whole > 0 and back > 0, forwards=whole, backwards=back)
        if kind != "spline":
            ctx.prove("length-additive-over-a-split", abs(whole - curve.get_length(lo_, c) - curve.get_length(c, hi_)) <= tol * max(1.0, whole), whole=whole)
        if kind == "linear":
            inner = [p for t, p in zip(curve.function.params, pts) if lo_ < t < hi_]
            poly = [curve.get_point(lo_)] + inner + [curve.get_point(hi_)]
            want = sum(np.linalg.norm(np.asarray(q) - np.asarray(p)) for p, q in zip(poly[:-1], poly[1:]))
            ctx.prove("piecewise-linear-length-equals-the-polyline-length", abs(whole - want) <= 1e-9 * max(1.0, want), got=whole, want=want)
        if kind == "line":
            ctx.prove("line-length-is-the-distance", abs(whole - np.linalg.norm(curve.get_point(hi_) - curve.get_point(lo_))) <= 1e-9 * max(1.0, whole))
        if kind == "circle":
            rad = np.linalg.norm(curve.rim.position - curve.origin.position)
            ctx.prove("circle-length-is-radius-times-angle", abs(whole - rad * (hi_ - lo_)) <= 2e-3 * max(1.0, whole))
    # a transformed curve is the same curve somewhere else: points at the same parameters are the images, lengths are kept
    if kind in ("linear", "spline", "line", "circle"):
        ts = [lo, lo + 0.37 * (hi - lo), hi]
        before = [np.asarray(curve.get_point(t_), dtype=float) for t_ in ts]
        len_before = curve.get_length(lo, hi)
        ang, ax = rng.uniform(0.3, 2.5), np.array([rng.uniform(-1, 1), rng.uniform(-1, 1), rng.uniform(0.3, 1)])
        org = np.array([rng.uniform(-2, 2) for _ in range(3)])
        how = rng.choice(["rotate", "scale", "translate"])
        if how == "rotate":
            curve.rotate(ang, ax, org)
            c_, s_ = math.cos(ang), math.sin(ang)
            img = lambda x: org + G.rot(ax / np.linalg.norm(ax), c_, s_, x - org)
            ratio = 1.0
        elif how == "scale":
            ratio = rng.uniform(0.5, 2)
            curve.scale(ratio, org)
            img = lambda x: org + (x - org) * ratio
        else:
            d_ = np.array([rng.uniform(-2, 2) for _ in range(3)])
            curve.translate(d_)
            img = lambda x: x + d_
            ratio = 1.0
        after = [np.asarray(curve.get_point(t_), dtype=float) for t_ in ts]
        ctx.prove("transformed-curve-points-are-the-images", all(np.allclose(a_, np.asarray(img(b_), dtype=float), atol=1e-7 * (1 + np.abs(b_).max())) for a_, b_ in zip(after, before)), how=how)
        ctx.prove("transformed-curve-length-scales-with-the-ratio", abs(curve.get_length(lo, hi) - ratio * len_before) <= 2e-3 * max(1.0, len_before), how=how)
        if pts is not None:
            ctx.prove("transformed-interpolated-curve-passes-through-the-images-of-its-points",
                      all(np.allclose(curve.get_point(t_), np.asarray(img(p_), dtype=float), atol=1e-7 * (1 + np.abs(p_).max())) for t_, p_ in zip(curve.function.params, pts)), how=how)
    # closest parameter: at least as close as every densely sampled point (query near the curve, away from the ends)
    t0 = rng.uniform(lo + 0.15 * (hi - lo), hi - 0.15 * (hi - lo))
    q = np.asarray(curve.get_point(t0), dtype=float) + np.array([rng.uniform(-1, 1) for _ in range(3)]) * 0.02
    t = curve.get_closest_param(q)
    dense = np.array([curve.get_point(s) for s in np.linspace(lo, hi, 400)])
    dmin = np.min(np.linalg.norm(dense - q, axis=1))
    ctx.prove("closest-parameter-inside-the-bounds", lo - 1e-9 <= t <= hi + 1e-9, t=t)
    ctx.prove("closest-parameter-at-least-as-close-as-dense-samples", np.linalg.norm(np.asarray(curve.get_point(min(max(t, lo), hi)), dtype=float) - q) <= 1.2 * dmin + 2e-3,
              got=float(np.linalg.norm(np.asarray(curve.get_point(min(max(t, lo), hi)), dtype=float) - q)), dense=float(dmin))
