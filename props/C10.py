"""C10 — face re-indexing and side/edge/corner addressing hit the intended geometry."""
import numpy as np

from classy_blocks.construct import edges as E
from classy_blocks.construct.flat.face import Face
from classy_blocks.construct.operations.operation import Operation
from classy_blocks.items.vertex import Vertex
from classy_blocks.lists.face_list import FaceList
from classy_blocks.lists.patch_list import PatchList
from contracts.spec import hexa
from pyvc.harness import proof
from pyvc.sym import And, Or

FACE = "classy_blocks.construct.flat.face:Face."
OP = "classy_blocks.construct.operations.operation:Operation."


def mk_face(ctx, name="p", tokens=True):
    pts = ctx.mat(name, 4)
    edges = [E.Arc([0.0, 0.0, float(i)]) for i in range(4)] if tokens else None
    return Face(pts, edges)


def mk_op(ctx):
    bottom = mk_face(ctx, "b")
    top = mk_face(ctx, "t")
    op = Operation(bottom, top)
    for i in range(4):
        op.add_side_edge(i, E.Arc([1.0, 0.0, float(i)]))
    return op


def edge_pairs(face):
    """edge datum id → unordered pair of the Point objects it sits between."""
    return {id(face.edges[i]): frozenset((id(face.points[i]), id(face.points[(i + 1) % 4]))) for i in range(4)}


def dist2(p, q):
    d = p - q
    return d[0] * d[0] + d[1] * d[1] + d[2] * d[2]


def common_face_clauses(ctx, face, pts0, edges0, pairs0, cyclic_same_sense):
    ctx.prove("same-four-points", sorted(map(id, face.points)) == sorted(map(id, pts0)) and len(face.points) == 4)
    ctx.prove("same-four-edge-data", sorted(map(id, face.edges)) == sorted(map(id, edges0)) and len(face.edges) == 4)
    ctx.prove("every-edge-between-the-same-two-points", edge_pairs(face) == pairs0)
    k = [i for i in range(4) if face.points[0] is pts0[i]]
    step = 1 if cyclic_same_sense else -1
    ctx.prove("cyclic-order",
              len(k) == 1 and all(face.points[j] is pts0[(k[0] + step * j) % 4] for j in range(4)))


@proof("C10", "Face.invert", functions=[FACE + "invert", FACE + "normal"], inlined=["functions.unit_vector", "functions.norm(model)"])
def invert(ctx):
    face = mk_face(ctx)
    pts0, edges0, pairs0 = list(face.points), list(face.edges), edge_pairs(face)
    n0 = face.normal
    pos0 = [p.position.copy() for p in pts0]
    r = face.invert()
    ctx.prove("returns-self", r is face)
    common_face_clauses(ctx, face, pts0, edges0, pairs0, cyclic_same_sense=False)
    ctx.prove("positions-unchanged", ctx.eq(np.array([p.position for p in pts0]), np.array(pos0)))
    ctx.prove("normal-flipped", ctx.eq(face.normal, -n0))


@proof("C10", "Face.shift", cases=list(range(-8, 9)), functions=[FACE + "shift", FACE + "normal"],
       note="all integer counts follow from the 17 enumerated ones by deque.rotate(n) == deque.rotate(n mod 4) (library fact, A2)")
def shift(ctx):
    face = mk_face(ctx)
    pts0, edges0, pairs0 = list(face.points), list(face.edges), edge_pairs(face)
    n0 = face.normal
    r = face.shift(ctx.case)
    ctx.prove("returns-self", r is face)
    common_face_clauses(ctx, face, pts0, edges0, pairs0, cyclic_same_sense=True)
    ctx.prove("normal-kept", ctx.eq(face.normal, n0))
    # shift by a multiple of 4 is the identity, shift(a); shift(-a) is the identity
    if ctx.case % 4 == 0:
        ctx.prove("multiple-of-4-is-identity", all(a is b for a, b in zip(face.points, pts0)))
    face.shift(-ctx.case)
    ctx.prove("shift-back-restores", all(a is b for a, b in zip(face.points, pts0))
              and all(a is b for a, b in zip(face.edges, edges0)))


@proof("C10", "Face.reorient", functions=[FACE + "reorient", FACE + "shift"],
       note="closest = any point at minimal distance (ties allowed)")
def reorient(ctx):
    face = mk_face(ctx)
    q = ctx.vec("q")
    pts0, edges0, pairs0 = list(face.points), list(face.edges), edge_pairs(face)
    n0 = face.normal
    d = [dist2(p.position, q) for p in pts0]
    r = face.reorient(q)
    ctx.prove("returns-self", r is face)
    common_face_clauses(ctx, face, pts0, edges0, pairs0, cyclic_same_sense=True)
    first = [i for i in range(4) if face.points[0] is pts0[i]][0]
    ctx.prove("first-point-is-closest", And([ctx.le(d[first], d[i]) for i in range(4)]), first=first)
    ctx.prove("normal-kept", ctx.eq(face.normal, n0))


# ------------------------------------------------------------------------------ addressing
def beams(op):
    fr = op.edges
    return {e: fr[min(e)][max(e)] for e in hexa.EDGE_SETS}


def vertices8():
    return [Vertex([0.0, 0.0, 0.0], 10 + c) for c in range(8)]


@proof("C10", "Operation.set_patch", cases=hexa.SIDES, functions=[OP + "set_patch", OP + "get_index_from_side", OP + "patch_names", OP + "get_patches_at_corner",
       "classy_blocks.lists.patch_list:PatchList.add", "classy_blocks.items.side:Side.__init__"])
def set_patch(ctx):
    side = ctx.case
    op = mk_op(ctx)
    op.set_patch(side, "P")
    pl = PatchList()
    vs = vertices8()
    pl.add(vs, op)
    ctx.prove("one-patch-one-quad", list(pl.patches) == ["P"] and len(pl.patches["P"].sides) == 1)
    quad = [v.index - 10 for v in pl.patches["P"].sides[0].vertices]
    ctx.prove("quad-is-the-named-side", hexa.is_quad_cycle(quad, side), quad=quad)
    ctx.prove("patch-names", op.patch_names == {side: "P"})
    ctx.prove("patches-at-corner",
              all((op.get_patches_at_corner(c) == {"P"}) == (c in hexa.FACE_SPEC[side])
                  and (op.get_patches_at_corner(c) == set()) == (c not in hexa.FACE_SPEC[side]) for c in range(8)))


import itertools

_SEQS = [list(p) for p in itertools.permutations(hexa.SIDES, 2)] + [list(hexa.SIDES), list(reversed(hexa.SIDES)),
                                                                     ["top", "left", "bottom"], ["front", "top", "back", "bottom"]]


@proof("C10", "Operation.set_patch/list-of-sides", cases=[",".join(s) for s in _SEQS],
       functions=[OP + "set_patch", OP + "patch_names", "classy_blocks.lists.patch_list:PatchList.add"])
def set_patch_list(ctx):
    sides = ctx.case.split(",")
    op = mk_op(ctx)
    op.set_patch(sides, "P")
    ctx.prove("exactly-the-listed-sides-named", op.patch_names == {s: "P" for s in sides})
    pl = PatchList()
    pl.add(vertices8(), op)
    quads = [[v.index - 10 for v in sd.vertices] for sd in pl.patches["P"].sides]
    ctx.prove("one-quad-per-listed-side", len(quads) == len(sides)
              and all(any(hexa.is_quad_cycle(q, s) for q in quads) for s in sides))
    # a later assignment on one side replaces only that side
    op.set_patch(sides[0], "Q")
    ctx.prove("reassignment-affects-one-side", op.patch_names == {**{s: "P" for s in sides}, sides[0]: "Q"})


@proof("C10", "Operation.project_side", cases=[(s, e, p) for s in hexa.SIDES for e in (False, True) for p in (False, True)],
       functions=[OP + "project_side", OP + "project_edge", OP + "_project_update", FACE + "project", FACE + "project_edge",
                  "classy_blocks.lists.face_list:FaceList.add", OP + "edges"])
def project_side(ctx):
    side, with_edges, with_points = ctx.case
    op = mk_op(ctx)
    before = beams(op)
    op.project_side(side, "G", edges=with_edges, points=with_points)
    fl = FaceList()
    fl.add(vertices8(), op)
    ctx.prove("one-projected-face", len(fl.faces) == 1 and fl.faces[0].label == "G")
    quad = [v.index - 10 for v in fl.faces[0].side.vertices]
    ctx.prove("projected-quad-is-the-named-side", hexa.is_quad_cycle(quad, side), quad=quad)
    after = beams(op)
    on = set(hexa.edges_of_face(side)) if with_edges else set()
    ctx.prove("exactly-the-side-edges-projected",
              all((isinstance(after[e], E.Project) and after[e].label == ["G"]) if e in on else (after[e] is before[e])
                  for e in hexa.EDGE_SETS))
    corners = hexa.FACE_SPEC[side] if with_points else frozenset()
    ctx.prove("exactly-the-side-corners-projected",
              all(op.points[c].projected_to == (["G"] if c in corners else []) for c in range(8)))


VALID = [(a, b) for a in range(8) for b in range(8) if hexa.is_edge(a, b)]
INVALID = [(a, b) for a in range(8) for b in range(8) if not hexa.is_edge(a, b)]


@proof("C10", "Operation.project_edge", cases=VALID, functions=[OP + "project_edge", "classy_blocks.util.tools:EdgeLocation.start_corner", OP + "edges"])
def project_edge(ctx):
    a, b = ctx.case
    op = mk_op(ctx)
    before = beams(op)
    op.project_edge(a, b, "G")
    after = beams(op)
    e0 = frozenset((a, b))
    ctx.prove("exactly-that-edge-projected",
              all((isinstance(after[e], E.Project) and after[e].label == ["G"]) if e == e0 else after[e] is before[e]
                  for e in hexa.EDGE_SETS))
    op.project_edge(b, a, "H")
    again = beams(op)
    ctx.prove("second-surface-joins-the-same-edge",
              all((isinstance(again[e], E.Project) and again[e].label == ["G", "H"]) if e == e0 else again[e] is before[e]
                  for e in hexa.EDGE_SETS))


@proof("C10", "Operation.project_edge/invalid-pair", cases=INVALID, functions=[OP + "project_edge"])
def project_edge_invalid(ctx):
    a, b = ctx.case
    op = mk_op(ctx)
    before = beams(op)
    _, exc = ctx.call(op.project_edge, a, b, "G")
    ctx.prove("raises", exc is not None)
    ctx.prove("nothing-changed", all(beams(op)[e] is before[e] for e in hexa.EDGE_SETS))


@proof("C10", "Operation.project_corner", cases=list(range(8)), functions=[OP + "project_corner", OP + "points"])
def project_corner(ctx):
    c0 = ctx.case
    op = mk_op(ctx)
    op.project_corner(c0, "G")
    ctx.prove("exactly-that-corner", all(op.points[c].projected_to == (["G"] if c == c0 else []) for c in range(8)))
    ctx.prove("corner-convention", all(op.points[c] is (op.bottom_face.points[c] if c < 4 else op.top_face.points[c - 4])
                                       for c in range(8)))


@proof("C10", "Operation.add_side_edge", cases=list(range(4)), functions=[OP + "add_side_edge", OP + "edges"])
def add_side_edge(ctx):
    i = ctx.case
    op = mk_op(ctx)
    before = beams(op)
    data = E.Arc([5.0, 5.0, 5.0])
    op.add_side_edge(i, data)
    after = beams(op)
    ctx.prove("beam-i-to-i+4", all((after[e] is data) if e == frozenset((i, i + 4)) else after[e] is before[e]
                                  for e in hexa.EDGE_SETS))


@proof("C10", "Face.add_edge", cases=[(f, i) for f in ("bottom", "top") for i in range(4)],
       functions=[FACE + "add_edge", OP + "edges"])
def face_add_edge(ctx):
    which, i = ctx.case
    op = mk_op(ctx)
    before = beams(op)
    data = E.Arc([5.0, 5.0, 5.0])
    off = 0 if which == "bottom" else 4
    (op.bottom_face if which == "bottom" else op.top_face).add_edge(i, data)
    after = beams(op)
    ctx.prove("between-corner-and-next", all((after[e] is data) if e == frozenset((off + i, off + (i + 1) % 4)) else after[e] is before[e]
                                             for e in hexa.EDGE_SETS))
    ctx.prove("direction-convention", frozenset((off + i, off + (i + 1) % 4)) == frozenset(hexa.EDGE_SPEC[off + i]))


@proof("C10", "Operation.get_face", cases=hexa.SIDES, functions=[OP + "get_face", OP + "point_array"])
def get_face(ctx):
    side = ctx.case
    op = mk_op(ctx)
    face = op.get_face(side)
    # which corner of the operation does each point of the new face coincide with (as terms)?
    pa = op.point_array
    idx = []
    for p in face.points:
        m = [c for c in range(8) if all(ctx.identical(p.position[k], pa[c][k]) for k in range(3))]
        idx.append(m[0] if m else None)
    ctx.prove("corners-of-the-named-side", None not in idx and hexa.is_quad_cycle(idx, side), idx=idx)
    ctx.prove("independent-copy", all(p is not q for p in face.points for q in op.points))


# ------------------------------------------------------------------------------ "exactly": no sharing through the caller's objects
PAIRS2 = [((0, 1), (2, 3)), ((4, 5), (1, 2)), ((0, 4), (6, 7)), ((3, 7), (5, 6)), ((1, 5), (0, 3))]


@proof("C10", "Operation.project_edge/shared-label-list", cases=PAIRS2, functions=[OP + "project_edge", "classy_blocks.construct.edges:Project.convert_label",
                                                                                  "classy_blocks.construct.edges:Project.add_label"],
       note="one list object given as the label of two edges, then a further surface added to the first edge only")
def project_edge_shared_list(ctx):
    (a, b), (c, d) = ctx.case
    op = mk_op(ctx)
    before = beams(op)
    label = ["terrain"]
    op.project_edge(a, b, label)
    op.project_edge(c, d, label)
    op.project_edge(a, b, "walls")
    after = beams(op)
    first, second = frozenset((a, b)), frozenset((c, d))
    ctx.prove("first-edge-has-both-surfaces", isinstance(after[first], E.Project) and sorted(after[first].label) == ["terrain", "walls"])
    ctx.prove("second-edge-keeps-its-own-label", isinstance(after[second], E.Project) and list(after[second].label) == ["terrain"], label=list(after[second].label))
    ctx.prove("callers-list-untouched", label == ["terrain"], label=label)
    ctx.prove("no-other-edge-changed", all(after[e] is before[e] for e in hexa.EDGE_SETS if e not in (first, second)))
    # an unsorted list given by the caller stays as the caller wrote it
    mine = ["zeta", "alpha"]
    op2 = mk_op(ctx)
    op2.project_edge(a, b, mine)
    ctx.prove("callers-list-not-reordered", mine == ["zeta", "alpha"], label=mine)


@proof("C10", "Operation.project_corner/shared-label-list", cases=[(0, 6), (5, 2), (7, 3), (1, 4)], functions=[OP + "project_corner", "classy_blocks.construct.point:Point.project"],
       note="one list object given as the label of two corners, then a further surface added to the second corner only")
def project_corner_shared_list(ctx):
    c1, c2 = ctx.case
    op = mk_op(ctx)
    label = ["terrain", "walls"]
    op.project_corner(c1, label)
    op.project_corner(c2, label)
    op.project_corner(c2, "sky")
    ctx.prove("second-corner-has-all-three", sorted(op.points[c2].projected_to) == ["sky", "terrain", "walls"])
    ctx.prove("first-corner-keeps-its-own-label", sorted(op.points[c1].projected_to) == ["terrain", "walls"], label=list(op.points[c1].projected_to))
    ctx.prove("callers-list-untouched", label == ["terrain", "walls"], label=label)
    ctx.prove("no-other-corner-projected", all(op.points[c].projected_to == [] for c in range(8) if c not in (c1, c2)))


@proof("C10", "Operation.edges/one-edge-datum-on-several-edges", cases=[((0, 1), (2, 3), (4, 5)), ((0, 1), (1, 2)), ((4, 5), (6, 7), (7, 4), (3, 0))],
       functions=[FACE + "add_edge", OP + "edges", "classy_blocks.util.frame:Frame.get_all_beams", "classy_blocks.util.frame:Frame.add_beam"],
       note="the same edge-data object attached to several face edges: every one of those block edges carries it")
def shared_edge_datum(ctx):
    op = Operation(mk_face(ctx, "b", tokens=False), mk_face(ctx, "t", tokens=False))
    shared = E.Project("terrain")
    for a, b in ctx.case:
        (op.bottom_face if a < 4 else op.top_face).add_edge(a % 4, shared)
    got = beams(op)
    want = {frozenset(p) for p in ctx.case}
    ctx.prove("every-addressed-edge-carries-the-datum", all(got.get(e) is shared for e in want), have=[sorted(e) for e in got if got[e] is shared])
    ctx.prove("and-no-other-edge", all(got.get(e) is not shared for e in hexa.EDGE_SETS if e not in want))
    listed = op.edges.get_all_beams()   # what the mesh is assembled from
    with_datum = [(c1, c2) for c1, c2, d in listed if d is shared]
    ctx.prove("listed-once-for-every-addressed-edge", sorted(sorted(p) for p in with_datum) == sorted(sorted(p) for p in ctx.case), listed=with_datum)
    ctx.prove("every-block-edge-listed-once", sorted(sorted((c1, c2)) for c1, c2, _ in listed) == sorted(sorted(e) for e in hexa.EDGE_SETS))


# ------------------------------------------------------------------------------ degenerate blocks: a collapsed side is still its own side
@proof("C10", "collapsed-side/other-sides-keep-their-patch-and-projection", cases=["wedge-on-the-axis", "prism"], level="S", samples=1,
       functions=["classy_blocks.items.side:Side.__eq__", "classy_blocks.items.patch:Patch.add_side", "classy_blocks.lists.face_list:FaceList.add_side",
                  OP + "set_patch", OP + "project_side"],
       note="a wedge touching its axis (front side collapsed to a line) and a three-sided prism (back side collapsed): patches and projections "
            "given to a collapsed side and to full sides that contain its two vertices all reach the assembled mesh, each on the vertices of its own corners")
def collapsed_side(ctx):
    import warnings

    import classy_blocks as cb
    from classy_blocks.mesh import Mesh

    lateral = ["front", "right", "back", "left"]
    if ctx.case == "wedge-on-the-axis":
        op = cb.Wedge(cb.Face([[0.0, 0.0, 0.0], [1.0, 0.0, 0.0], [1.0, 1.0, 0.0], [0.0, 1.0, 0.0]]))
        collapsed = "front"
    else:
        f1 = cb.Face([[0.0, 0.0, 0.0], [1.0, 0.0, 0.0], [0.5, 1.0, 0.0], [0.5, 1.0, 0.0]])
        op = cb.Loft(f1, f1.copy().translate([0.0, 0.0, 1.0]))
        collapsed = "back"
    op.set_patch(list(lateral), "walls")
    op.set_patch("top", "lid")
    op.project_side(collapsed, "geo_a")
    for side in ("top", "bottom", "left", "right"):
        op.project_side(side, "geo_b")
    mesh = Mesh()
    mesh.add(op)
    with warnings.catch_warnings():
        warnings.simplefilter("ignore")
        mesh.assemble()
    blk = mesh.blocks[0]
    key = lambda side: frozenset(blk.vertices[c].index for c in hexa.FACE_SPEC[side])
    ctx.prove("that-side-is-collapsed", len(key(collapsed)) < 4, n=len(key(collapsed)))
    walls = mesh.patch_list.patches["walls"]
    got = [frozenset(v.index for v in side.vertices) for side in walls.sides]
    want = [frozenset(key(s_)) for s_ in lateral]
    ctx.prove("patch-has-every-assigned-side", all(w in got for w in want) and len(got) == len(want), got=[sorted(g) for g in got], want=[sorted(w) for w in want])
    faces = [(frozenset(v.index for v in f_.side.vertices), f_.label) for f_ in mesh.face_list.faces]
    for side in ("top", "bottom", "left", "right", collapsed):
        ctx.prove("projected-side-reaches-the-mesh", any(k == frozenset(key(side)) for k, _ in faces), side=side, faces=[sorted(k) for k, _ in faces])


# ------------------------------------------------------------------------------ addressing reaches the assembled mesh (and survives re-assembly)
@proof("C10", "assembled-mesh/sides-patches-and-projections-reach-the-mesh", level="S", samples=1,
       cases=[(h, sk) for h in ("assemble", "assemble-clear-assemble", "assemble-backport", "modify-delete-clear-assemble") for sk in (False, True)],
       functions=["classy_blocks.mesh:Mesh.assemble", "classy_blocks.mesh:Mesh.clear", "classy_blocks.lists.face_list:FaceList.add", "classy_blocks.lists.face_list:FaceList.clear",
                  "classy_blocks.lists.patch_list:PatchList.add", "classy_blocks.lists.patch_list:PatchList.clear", OP + "set_patch", OP + "project_side"],
       note="two boxes, every side of the first one given its own patch and its own projection: in the assembled mesh (edges skipped or not; after "
            "clear / backport; with a patch modified through the mesh and the second box deleted in between) each patch and each projected face "
            "sits on the four vertices of that side's corners, once")
def assembled_addressing(ctx):
    import classy_blocks as cb
    from classy_blocks.mesh import Mesh

    hist, skip = ctx.case
    a, b = cb.Box([0.0, 0.0, 0.0], [1.0, 1.0, 1.0]), cb.Box([1.0, 0.0, 0.0], [2.0, 1.0, 1.0])
    for s_ in hexa.SIDES:
        a.set_patch(s_, "p_" + s_)
        a.project_side(s_, "g_" + s_)
    b.set_patch("top", "lid")
    b.project_side("top", "g_lid")
    mesh = Mesh()
    mesh.add(a)
    mesh.add(b)
    kw = {"skip_edges": True} if skip else {}
    mesh.assemble(**kw)
    live_b = True
    if hist == "assemble-clear-assemble":
        mesh.clear()
        mesh.assemble(**kw)
    elif hist == "assemble-backport":
        mesh.backport()
    elif hist == "modify-delete-clear-assemble":
        mesh.modify_patch("p_right", "wall")
        mesh.modify_patch("lid", "wall")
        mesh.delete(b)
        live_b = False
        mesh.clear()
        mesh.assemble(**kw)
    blk = mesh.blocks[0]
    key = lambda block, side: frozenset(block.vertices[c].index for c in hexa.FACE_SPEC[side])
    want_patches = {"p_" + s_: [key(blk, s_)] for s_ in hexa.SIDES}
    want_faces = {(key(blk, s_), "g_" + s_) for s_ in hexa.SIDES}
    if live_b:
        want_patches["lid"] = [key(mesh.blocks[1], "top")]
        want_faces.add((key(mesh.blocks[1], "top"), "g_lid"))
    got_patches = {name: [frozenset(v.index for v in side.vertices) for side in p.sides] for name, p in mesh.patch_list.patches.items() if p.sides}
    ctx.prove("each-patch-holds-exactly-its-side", got_patches == want_patches, got={k: [sorted(x) for x in v] for k, v in got_patches.items()})
    got_faces = [(frozenset(v.index for v in f_.side.vertices), f_.label if isinstance(f_.label, str) else tuple(f_.label)) for f_ in mesh.face_list.faces]
    ctx.prove("each-projected-side-is-listed-once-on-its-own-vertices", sorted((sorted(k), str(l)) for k, l in got_faces) == sorted((sorted(k), str(l)) for k, l in want_faces),
              got=[(sorted(k), str(l)) for k, l in got_faces])
    ctx.prove("side-vertices-are-vertices-of-the-mesh", all(any(v is w for w in mesh.vertices) for p in mesh.patch_list.patches.values() for side in p.sides for v in side.vertices)
              and all(any(v is w for w in mesh.vertices) for f_ in mesh.face_list.faces for v in f_.side.vertices))
