"""C12 — assemble/clear/backport/delete/write round-trips preserve the model."""
import os
import tempfile

import numpy as np

from classy_blocks.mesh import Mesh
from contracts.spec import foamdict as F
from contracts.spec.programs import Program
from pyvc.harness import proof
from pyvc.sym import And, Not, Or


def write_text(mesh):
    fd, path = tempfile.mkstemp(suffix=".bmd", dir=os.environ.get("TMPDIR"))
    os.close(fd)
    try:
        mesh.write(path)
        with open(path) as fh:
            return fh.read()
    finally:
        if os.path.exists(path):
            os.remove(path)


def strip_ws(text):
    """The dictionary's content: token sequence with numbers normalised (1 and 1.0 are the same entry)."""
    out = []
    for t in F.tokens(text):
        try:
            out.append(repr(round(float(t), 12)))
        except ValueError:
            out.append(t)
    return " ".join(out)


HISTORIES = {
    "write-write": ["write", "write"],
    "assemble-clear-assemble": ["assemble", "clear", "assemble"],
    "assemble-clear-write": ["assemble", "clear"],
    "assemble-backport": ["assemble", "backport"],
    "assemble-backport-backport": ["assemble", "backport", "backport"],
    "write-clear-assemble": ["write", "clear", "assemble"],
    "assemble-backport-clear-assemble": ["assemble", "backport", "clear", "assemble"],
}
SEEDS = [2000 + k for k in range(10)]


@proof("C12", "round-trip/same-dictionary-as-a-single-assembly", cases=[(h, s) for h in HISTORIES for s in range(len(SEEDS))], level="S", samples=1,
       functions=["classy_blocks.mesh:Mesh.assemble", "classy_blocks.mesh:Mesh.clear", "classy_blocks.mesh:Mesh.backport", "classy_blocks.mesh:Mesh.write",
                  "classy_blocks.mesh:Mesh.grade", "classy_blocks.lists.patch_list:PatchList.clear", "classy_blocks.lists.vertex_list:VertexList.clear",
                  "classy_blocks.lists.block_list:BlockList.clear", "classy_blocks.lists.edge_list:EdgeList.clear", "classy_blocks.lists.face_list:FaceList.clear",
                  "classy_blocks.items.wires.manager:WireChopManager.grade", "classy_blocks.construct.flat.face:Face.update"],
       note="program-bounded: 10 enumerated scripts (patch types/settings changed through the mesh, projections, merged pairs, "
            "deletions, curved edges) x 7 histories; the text written after the history must equal the text written by a freshly built "
            "equivalent model")
def round_trip(ctx):
    hname, si = ctx.case
    seed = SEEDS[si]
    reference = strip_ws(write_text(Program(seed, offset_scale=(si % 3 == 2)).mesh))
    prog = Program(seed, offset_scale=(si % 3 == 2))
    mesh = prog.mesh
    for step in HISTORIES[hname]:
        if step == "write":
            first = strip_ws(write_text(mesh))
            ctx.prove("intermediate-write-equals-reference", first == reference, step=step)
        else:
            getattr(mesh, step)()
    final = strip_ws(write_text(mesh))
    if final != reference:
        a, b = final.split(), reference.split()
        k = next((i for i, (x, y) in enumerate(zip(a, b)) if x != y), min(len(a), len(b)))
        diff = [" ".join(a[max(0, k - 8): k + 8]), " ".join(b[max(0, k - 8): k + 8])]
    else:
        diff = []
    ctx.prove("same-dictionary-as-a-single-assembly", final == reference, first_differences=diff)


def _sphere_mesh():
    import classy_blocks as cb

    mesh = Mesh()
    shape = cb.Hemisphere([0.0, 0.0, 0.0], [1.0, 0.0, 0.0], [0.0, 0.0, 1.0])
    shape.chop_axial(count=3)
    shape.chop_radial(count=2)
    shape.chop_tangential(count=3)
    mesh.add(shape)
    box = cb.Box([3.0, 0.0, 0.0], [4.0, 1.0, 1.0])
    for ax in range(3):
        box.chop(ax, count=2)
    box.project_side("top", "lid", edges=True)
    mesh.add(box)
    mesh.add_geometry({"lid": ["type plane", "planeType pointAndNormal", "point (0 0 1)", "normal (0 0 1)"]})
    return mesh


@proof("C12", "round-trip/shape-with-its-own-geometry", cases=list(HISTORIES), level="S", samples=1,
       functions=["classy_blocks.mesh:Mesh.assemble", "classy_blocks.mesh:Mesh.clear", "classy_blocks.lists.geometry_list:GeometryList.add",
                  "classy_blocks.construct.shapes.sphere:EighthSphere.geometry"],
       note="a hemisphere (which declares its own searchable sphere at every assembly) beside a box projected to a user geometry, through the 7 histories")
def round_trip_sphere(ctx):
    import re

    # the shape's geometry is named after the object's id: compare modulo that name
    norm = lambda text: re.sub(r"sphere_\d+", "sphere_ID", strip_ws(text))
    reference = norm(write_text(_sphere_mesh()))
    mesh = _sphere_mesh()
    for step in HISTORIES[ctx.case]:
        if step == "write":
            ctx.prove("intermediate-write-equals-reference", norm(write_text(mesh)) == reference, step=step)
        else:
            getattr(mesh, step)()
    final = norm(write_text(mesh))
    a, b = final.split(), reference.split()
    k = next((i for i, (x, y) in enumerate(zip(a, b)) if x != y), min(len(a), len(b)))
    ctx.prove("same-dictionary-as-a-single-assembly", final == reference,
              first_differences=[" ".join(a[max(0, k - 8): k + 8]), " ".join(b[max(0, k - 8): k + 8])] if final != reference else [])


@proof("C12", "backport/moved-vertices-update-exactly-their-operations", cases=list(range(len(SEEDS))), level="S", samples=1,
       functions=["classy_blocks.mesh:Mesh.backport", "classy_blocks.construct.flat.face:Face.update", "classy_blocks.mesh:Mesh.operations"],
       note="a vertex is moved after assembly; also with deleted operations anywhere in the depot")
def backport_moved(ctx):
    si = ctx.case
    prog = Program(SEEDS[si], offset_scale=(si % 3 == 2))
    mesh = prog.mesh
    mesh.assemble()
    d = np.array([0.013, -0.021, 0.017])
    vi = (si * 7) % len(mesh.vertices)
    target = mesh.vertices[vi]
    old_pos = np.array(target.position, dtype=object).copy()
    new_pos = old_pos + d * prog.size
    before = {id(op): np.array(op.point_array, dtype=object).copy() for op in prog.ops}
    if si % 2 == 0:
        scratch = np.array(new_pos, dtype=float)
        target.move_to(scratch)
        scratch += 7.0    # the caller's array is the caller's: re-using it afterwards must not move the vertex
    else:
        target.translate(d * prog.size)   # modifies the vertex' position in place
    live = prog.live_ops
    blocks = list(mesh.blocks)
    owners = [op for op, b in zip(live, blocks) if any(v is target for v in b.vertices)]
    # frame: the assembled mesh is a separate representation; nothing reaches the operations before backport()
    ctx.prove("moving-a-vertex-leaves-the-operations-alone-until-backport",
              all(ctx.eq(np.array(op.point_array, dtype=object), before[id(op)], tol=0) for op in prog.ops))
    flags_before = {id(op): [list(p.projected_to) for p in op.points] for op in prog.ops}
    want = {}
    for op, b in zip(live, blocks):
        want[id(op)] = np.array([np.array(v.position, dtype=object) for v in b.vertices], dtype=object)
    mesh.backport()
    ctx.prove("one-block-per-non-deleted-operation", len(blocks) == len(live))
    for op in prog.ops:
        now = np.array(op.point_array, dtype=object)
        if any(op is o for o in prog.deleted):
            ctx.prove("deleted-operation-untouched", ctx.eq(now, before[id(op)]))
        elif any(op is o for o in owners):
            ctx.prove("owner-operation-has-the-moved-position", ctx.eq(now, want[id(op)]))
        else:
            ctx.prove("other-operation-untouched", ctx.eq(now, before[id(op)]))
        ctx.prove("projections-of-points-survive", [list(p.projected_to) for p in op.points] == flags_before[id(op)])
    ctx.prove("some-operation-owns-the-moved-vertex", len(owners) >= 1)
    # the re-assembled mesh has the moved position
    ctx.prove("reassembled-mesh-has-the-moved-vertex", Or([ctx.eq(np.array(v.position, dtype=object), new_pos) for v in mesh.vertices]))
    ctx.prove("same-number-of-blocks-and-vertices", len(mesh.blocks) == len(blocks))


@proof("C12", "delete/removes-its-block-and-nothing-else", cases=list(range(len(SEEDS))), level="S", samples=1,
       functions=["classy_blocks.mesh:Mesh.delete", "classy_blocks.mesh:Mesh.assemble"],
       note="deleting after a first assembly (clear + assemble) must give the same dictionary as a model built with the deletion")
def delete_after_assembly(ctx):
    si = ctx.case
    prog = Program(SEEDS[si])
    mesh = prog.mesh
    candidates = [op for op in prog.live_ops][1:]
    if not candidates:
        ctx.prove("nothing-to-delete", True)
        return
    victim_index = [id(o) for o in prog.ops].index(id(candidates[-1]))
    # reference: same script, deletion declared before the first assembly
    ref = Program(SEEDS[si])
    ref.mesh.delete(ref.ops[victim_index])
    ref.deleted.append(ref.ops[victim_index])
    try:
        reference = strip_ws(write_text(ref.mesh))
    except Exception:  # noqa: BLE001  the reduced model may be under-specified; then there is nothing to compare
        ctx.prove("reference-not-writable-skip", True)
        return
    mesh.assemble()
    n_before = len(mesh.blocks)
    mesh.delete(prog.ops[victim_index])
    mesh.clear()
    mesh.assemble()
    ctx.prove("one-block-fewer", len(mesh.blocks) == n_before - 1)
    got = strip_ws(write_text(mesh))
    a, b = got.split(), reference.split()
    k = next((i for i, (x, y) in enumerate(zip(a, b)) if x != y), min(len(a), len(b)))
    ctx.prove("same-dictionary-as-model-built-with-the-deletion", got == reference,
              diff=[" ".join(a[max(0, k - 8): k + 8]), " ".join(b[max(0, k - 8): k + 8])])
    # and the deletion survives further round trips
    mesh.clear()
    mesh.assemble()
    mesh.backport()
    ctx.prove("deletion-survives-clear-and-backport", len(mesh.blocks) == n_before - 1)


@proof("C12", "regrade/written-again-after-vertices-were-moved", cases=["neighbour-copies-the-count", "neighbour-added-first", "three-in-a-row"], level="S", samples=1,
       functions=["classy_blocks.mesh:Mesh.grade", "classy_blocks.lists.block_list:BlockList.grade_blocks", "classy_blocks.items.wires.manager:WireManagerBase.reset",
                  "classy_blocks.items.wires.manager:WirePropagateManager.reset", "classy_blocks.items.wires.manager:WireChopManager.grade"],
       note="write, move vertices (the cell count of a size-based chop depends on the edge length), write again: the second file is the one a "
            "freshly built model with the moved geometry gives")
def regrade_after_move(ctx):
    import classy_blocks as cb
    from classy_blocks.modify.find.geometric import GeometricFinder

    def model(height):
        n = 3 if ctx.case == "three-in-a-row" else 2
        ops = [cb.Box([float(i), 0.0, 0.0], [float(i) + 1, 1.0, height]) for i in range(n)]
        ops[0].chop(0, count=3)
        ops[0].chop(1, count=3)
        ops[0].chop(2, start_size=0.05, c2c_expansion=1.1)
        for op in ops[1:]:
            op.chop(0, count=3)
        order = ops[::-1] if ctx.case == "neighbour-added-first" else ops
        mesh = Mesh()
        for op in order:
            mesh.add(op)
        return mesh

    mesh = model(1.0)
    first = strip_ws(write_text(mesh))
    ctx.prove("first-write-equals-a-fresh-model", first == strip_ws(write_text(model(1.0))))
    for v in GeometricFinder(mesh).find_on_plane([0.0, 0.0, 1.0], [0.0, 0.0, 1.0]):
        v.translate([0.0, 0.0, 0.5])
    text, exc = ctx.call(write_text, mesh)
    ctx.prove("second-write-succeeds", exc is None, exc=repr(exc)[:200])
    if exc is None:
        ctx.prove("second-write-equals-a-fresh-model-of-the-moved-geometry", strip_ws(text) == strip_ws(write_text(model(1.5))))
