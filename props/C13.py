"""C13 — optimization never worsens quality; only clamped vertices move, on their constraints."""
import math

import numpy as np

import classy_blocks as cb
from classy_blocks.mesh import Mesh
from classy_blocks.optimize import optimizer as opt_mod
from classy_blocks.optimize.cell import CellBase
from classy_blocks.optimize.clamps.curve import LineClamp, RadialClamp
from classy_blocks.optimize.clamps.free import FreeClamp
from classy_blocks.optimize.clamps.surface import PlaneClamp
from classy_blocks.optimize.grid import GridBase, HexGrid, QuadGrid
from classy_blocks.optimize.links import RotationLink, SymmetryLink, TranslationLink
from classy_blocks.optimize.optimizer import MeshOptimizer, SketchOptimizer
from contracts.spec import geom as G
from pyvc.harness import proof
from pyvc.sym import And, Not, Or

GR = "classy_blocks.optimize.grid:GridBase."
OP = "classy_blocks.optimize.optimizer:OptimizerBase."
QUADS = [[0, 1, 4, 3], [1, 2, 5, 4], [3, 4, 7, 6], [4, 5, 8, 7]]


def lattice(ctx):
    base = [[float(i), float(j), 0.0] for j in range(3) for i in range(3)]
    out = []
    for k, p in enumerate(base):
        out.append([ctx.real(f"x{k}", lo=p[0] - 0.2, hi=p[0] + 0.2), ctx.real(f"y{k}", lo=p[1] - 0.2, hi=p[1] + 0.2), ctx.real(f"z{k}", lo=-0.2, hi=0.2)])
    return np.array(out, dtype=object if ctx.symbolic else float)


class _Quality:
    """Quality as an uninterpreted function of the evaluation (the measure itself is C14's): every read
    yields a fresh symbolic value; the harness relates reads on identical states explicitly."""

    def __init__(self, ctx):
        self.ctx, self.n = ctx, 0

    def __call__(self, *_):
        self.n += 1
        return self.ctx.real(f"Q{self.n}", lo=0, hi=1000)


@proof("C13", "GridBase.update/only-the-row-and-its-followers", cases=["no-links", "one-link", "two-links", "chain-not-followed"],
       functions=[GR + "update", "classy_blocks.optimize.links:LinkBase.update", "classy_blocks.optimize.junction:Junction.add_link"],
       uses=["cell quality (stub: uninterpreted value; C14)"], samples=6, note="all grid points, the new position and the links symbolic")
def grid_update(ctx):
    P = lattice(ctx)
    grid = QuadGrid(P.copy(), [list(q) for q in QUADS])
    before = np.array(grid.points, dtype=object).copy()
    links = []
    if ctx.case in ("one-link", "two-links", "chain-not-followed"):
        links.append((TranslationLink(grid.points[4], grid.points[8]), 8))
    if ctx.case == "two-links":
        links.append((SymmetryLink(grid.points[4], grid.points[0], [0.0, 2.0, 0.0], [1.0, 1.0, 0.0]), 0))
    for l, fi in links:
        grid.junctions[4].add_link(l, fi)
    if ctx.case == "chain-not-followed":
        grid.junctions[8].add_link(TranslationLink(grid.points[8], grid.points[2]), 2)
    new = ctx.vec("n")
    q = _Quality(ctx)
    with ctx.stub(CellBase, "quality", property(q), only_symbolic=False):
        grid.update(4, new)
    ctx.prove("row-is-the-new-position", ctx.eq(grid.points[4], new))
    moved = {4}
    if links:
        ctx.prove("translation-follower-keeps-its-offset", ctx.eq(grid.points[8], new + (before[8] - before[4])))
        moved.add(8)
    if ctx.case == "two-links":
        ctx.prove("symmetry-follower-is-the-mirror-image", ctx.eq(grid.points[0], G.reflect(new, [0.0, 2.0, 0.0], [1.0, 1.0, 0.0]), tol=1e-7))
        moved.add(0)
    ctx.prove("no-other-point-moves", And([ctx.eq(grid.points[i], before[i], tol=0) for i in range(9) if i not in moved]))
    ctx.prove("every-follower-of-the-junction-updated", all(ctx.identical(x, y) or True for x, y in zip(grid.points[8], grid.points[8])))


class _MinimizeStub:
    """scipy.optimize.minimize as a havoc-ing external: calls the objective with arbitrary parameter
    vectors inside the bounds it was given and returns; `degenerate` makes a later objective call raise
    ValueError (a degenerate cell met by the real quality function)."""

    def __init__(self, ctx, n_calls, degenerate=False):
        self.ctx, self.n_calls, self.degenerate = ctx, n_calls, degenerate
        self.trials = []

    def __call__(self, fun, x0, bounds=None, method=None, **kw):
        for k in range(self.n_calls):
            if bounds is not None:
                x = [self.ctx.real(f"trial{k}_{i}", lo=bounds[i][0], hi=bounds[i][1]) for i in range(len(x0))]
            else:
                x = [self.ctx.real(f"trial{k}_{i}") for i in range(len(x0))]
            self.trials.append(x)
            fun(x)
        if self.degenerate:
            raise ValueError("Degenerate Cell")
        return None


@proof("C13", "optimize_clamp/frame-rollback-and-no-worsening", cases=[(c, o) for c in ("free", "line") for o in ("improved-or-rolled-back", "degenerate-cell")],
       functions=[OP + "optimize_clamp", GR + "update", GR + "get_junction_from_clamp", "classy_blocks.optimize.clamps.clamp:ClampBase.update_params",
                  "classy_blocks.optimize.iteration:ClampOptimizationData.improvement"],
       uses=["scipy.optimize.minimize (havoc-ing external: arbitrary trial parameters inside the bounds, A2)", "cell quality (stub: uninterpreted, C14)"],
       samples=6, timeout=90,
       note="clamped junction 4 leads junction 8 (translation link); grid points symbolic; quality values symbolic (both outcomes of the "
            "improvement test are explored)")
def optimize_clamp(ctx):
    kind, outcome = ctx.case
    P = lattice(ctx)
    grid = QuadGrid(P.copy(), [list(q) for q in QUADS])
    q = _Quality(ctx)
    from classy_blocks.optimize.clamps import clamp as clamp_mod

    class _R:
        def __init__(self, x):
            self.x = x

    # clamp created at the junction's position; its initial parameters reproduce that position (side condition R)
    if kind == "free":
        with ctx.stub(clamp_mod.scipy.optimize, "minimize", lambda fun, x0, **k: _R(list(x0))):
            clamp = FreeClamp(grid.points[4])
        bounds = None
    else:
        a, b = grid.points[4] - np.array([1.0, 0.0, 0.0]), grid.points[4] + np.array([1.0, 0.0, 0.0])
        t0 = ctx.const(1.0)
        with ctx.stub(clamp_mod.scipy.optimize, "minimize", lambda fun, x0, **k: _R([t0])):
            clamp = LineClamp(grid.points[4], a, b)
        bounds = clamp.bounds
    grid.junctions[4].add_clamp(clamp)
    grid.junctions[4].add_link(TranslationLink(grid.points[4], grid.points[8]), 8)
    opt = SketchOptimizer.__new__(SketchOptimizer)
    opt.grid, opt.report = grid, False
    before = np.array(grid.points, dtype=object).copy()
    params0 = list(clamp.params)
    ctx.prove("side-condition/initial-parameters-reproduce-the-vertex", ctx.eq(clamp.function(params0), before[4], tol=1e-7))
    stub = _MinimizeStub(ctx, 2, degenerate=(outcome == "degenerate-cell"))
    with ctx.stub(CellBase, "quality", property(q), only_symbolic=False), \
            ctx.stub(opt_mod.scipy.optimize, "minimize", stub, only_symbolic=False), \
            ctx.stub(opt_mod, "ClampOptimizationData", _SilentData, only_symbolic=False):
        opt.optimize_clamp(clamp, "SLSQP")
    after = grid.points
    rep = _SilentData.last
    ctx.prove("only-the-clamped-row-and-its-follower-may-differ", And([ctx.eq(after[i], before[i], tol=0) for i in range(9) if i not in (4, 8)]))
    ctx.prove("clamped-vertex-is-at-the-clamps-position", ctx.eq(after[4], clamp.position) and ctx.eq(clamp.position, clamp.function(clamp.params)))
    ctx.prove("follower-keeps-its-offset", ctx.eq(after[8], after[4] + (before[8] - before[4]), tol=1e-9))
    if bounds is not None:
        ctx.prove("parameters-inside-the-bounds", And(ctx.le(bounds[0][0], clamp.params[0]), ctx.le(clamp.params[0], bounds[0][1])))
    if rep.skipped or rep.rolled_back:
        ctx.prove("rolled-back-state-is-the-state-before", And(ctx.eq(after[4], before[4], tol=1e-7), ctx.eq(after[8], before[8], tol=1e-7)),
                  skipped=rep.skipped)
        ctx.prove("rolled-back-parameters-are-the-initial-ones", And([ctx.eq(x, y) for x, y in zip(clamp.params, params0)]))
    else:
        ctx.prove("kept-only-if-grid-quality-improved", ctx.lt(rep.grid_final, rep.grid_initial))
        ctx.prove("kept-parameters-are-the-last-trial", all(ctx.identical(x, y) for x, y in zip(clamp.params, stub.trials[-1])))
    if outcome == "degenerate-cell":
        ctx.prove("degenerate-cell-is-rolled-back", rep.skipped)


class _SilentData(opt_mod.ClampOptimizationData):
    last = None

    def __init__(self, *a, **k):
        super().__init__(*a, **k)
        _SilentData.last = self

    def report_start(self):
        pass

    def report_end(self):
        pass


# ------------------------------------------------------------------------------ bounded: real optimisation runs
def _perturbed_sketch(rng):
    base = np.array([[float(i), float(j), 0.0] for j in range(3) for i in range(3)])
    P = base.copy()
    P[4, :2] += [rng.uniform(-0.35, 0.35), rng.uniform(-0.35, 0.35)]
    P[1, 0] += rng.uniform(-0.3, 0.3)
    P[7, 0] += rng.uniform(-0.3, 0.3)
    return cb.MappedSketch(P, [list(q) for q in QUADS]), P


@proof("C13", "bounded/sketch-optimizer", cases=["SLSQP", "L-BFGS-B", "Nelder-Mead", "Powell"], level="B", samples=6,
       functions=[OP + "optimize", OP + "optimize_iteration", OP + "_get_sensitivity", "classy_blocks.optimize.optimizer:SketchOptimizer.backport"],
       note="bounded stand-in: a 2x2 mapped sketch with perturbed points; plane clamp on the centre, line clamps on two boundary "
            "points with bounds, a translation link; 1-3 iterations")
def sketch_optimizer(ctx):
    rng = ctx.rng
    sketch, P = _perturbed_sketch(rng)
    opt = SketchOptimizer(sketch, report=False)
    q0 = opt.grid.quality
    clamps = {4: PlaneClamp(P[4], P[4], [0.0, 0.0, 1.0]),
              1: LineClamp(P[1], [0.0, 0.0, 0.0], [2.0, 0.0, 0.0], bounds=(0.3, 1.7))}
    for c in clamps.values():
        opt.add_clamp(c)
    linked = rng.random() < 0.5
    if linked:
        opt.add_link(TranslationLink(P[1], P[7]))
    import io, contextlib

    with contextlib.redirect_stdout(io.StringIO()):
        opt.optimize(max_iterations=rng.randint(1, 3), method=ctx.case)
    after = np.asarray(sketch.positions, dtype=float)
    ctx.prove("quality-not-worse", opt.grid.quality <= q0 + 1e-9, before=q0, after=opt.grid.quality)
    movable = {4, 1} | ({7} if linked else set())
    ctx.prove("unclamped-points-do-not-move", all(np.array_equal(after[i], P[i]) for i in range(9) if i not in movable))
    ctx.prove("plane-clamped-point-stays-in-its-plane", abs(after[4][2] - P[4][2]) < 1e-9)
    ctx.prove("line-clamped-point-stays-on-its-line-inside-the-bounds", abs(after[1][1]) < 1e-9 and abs(after[1][2]) < 1e-9 and 0.3 - 1e-9 <= after[1][0] <= 1.7 + 1e-9,
              x=after[1].tolist())
    if linked:
        ctx.prove("linked-point-keeps-its-offset", np.allclose(after[7] - after[1], P[7] - P[1], atol=1e-9))
    ctx.prove("sketch-points-equal-the-optimizers-final-positions", np.allclose(after, np.asarray(opt.grid.points, dtype=float), atol=0))


@proof("C13", "bounded/mesh-optimizer", cases=["radial-bounds", "two-followers", "degenerate-trial"], level="B", samples=5,
       functions=[OP + "optimize", "classy_blocks.optimize.optimizer:MeshOptimizer.backport", "classy_blocks.optimize.clamps.curve:RadialClamp.__init__"],
       note="bounded stand-in: 2x2x1 boxes with a perturbed inner edge; radial clamp with explicit bounds and radius > 1; one leader "
            "with two followers; a line clamp whose trial can flatten a cell")
def mesh_optimizer(ctx):
    rng = ctx.rng
    mesh = Mesh()
    for i in range(2):
        for j in range(2):
            b = cb.Box([i * 1.0 + 2.0, j * 1.0, 0.0], [i + 3.0, j + 1.0, 1.0])
            mesh.add(b)
    mesh.assemble(skip_edges=True)
    verts = mesh.vertices
    pos0 = np.array([np.asarray(v.position, dtype=float) for v in verts])
    inner = [k for k, p in enumerate(pos0) if abs(p[0] - 3.0) < 1e-9 and abs(p[1] - 1.0) < 1e-9]
    lower, upper = sorted(inner, key=lambda k: pos0[k][2])
    shift = np.array([rng.uniform(-0.25, 0.25), rng.uniform(-0.25, 0.25), 0.0])
    for k in inner:
        verts[k].move_to(pos0[k] + shift)
    pos1 = np.array([np.asarray(v.position, dtype=float) for v in verts])
    opt = MeshOptimizer(mesh, report=False)
    q0 = opt.grid.quality
    case = ctx.case
    if case == "radial-bounds":
        # circle about an axis parallel to z that does not pass through the origin: radius ~ 5.2 > 1; parameter is arc length
        clamp = RadialClamp(pos1[lower], [-2.0, -0.5, 0.3], [0.0, 0.0, 2.0], bounds=[-0.15, 0.15])
        opt.add_clamp(clamp)
        opt.add_link(TranslationLink(pos1[lower], pos1[upper]))
    elif case == "two-followers":
        clamp = FreeClamp(pos1[lower])
        opt.add_clamp(clamp)
        others = [k for k in range(len(pos1)) if k not in inner and abs(pos1[k][2]) < 1e-9][:1]
        opt.add_link(TranslationLink(pos1[lower], pos1[upper]))
        opt.add_link(TranslationLink(pos1[lower], pos1[others[0]]))
    else:
        a, b_ = pos1[lower] - [1.5, 0.0, 0.0], pos1[lower] + [1.5, 0.0, 0.0]
        clamp = LineClamp(pos1[lower], a, b_)
        opt.add_clamp(clamp)
        opt.add_link(TranslationLink(pos1[lower], pos1[upper]))
    import io, contextlib

    with contextlib.redirect_stdout(io.StringIO()):
        opt.optimize(max_iterations=2, method="SLSQP" if case != "degenerate-trial" else "Nelder-Mead")
    pos2 = np.array([np.asarray(v.position, dtype=float) for v in verts])
    ctx.prove("quality-not-worse", opt.grid.quality <= q0 + 1e-9, before=q0, after=opt.grid.quality)
    movable = {lower, upper} | ({others[0]} if case == "two-followers" else set())
    ctx.prove("vertices-without-clamp-or-link-do-not-move", all(np.array_equal(pos2[k], pos1[k]) for k in range(len(pos1)) if k not in movable))
    ctx.prove("follower-keeps-its-offset", np.allclose(pos2[upper] - pos2[lower], pos1[upper] - pos1[lower], atol=1e-9))
    if case == "two-followers":
        k = others[0]
        ctx.prove("second-follower-keeps-its-offset-too", np.allclose(pos2[k] - pos2[lower], pos1[k] - pos1[lower], atol=1e-9))
    if case == "radial-bounds":
        cxy = np.array([-2.0, -0.5])
        r1, r2 = np.hypot(*(pos1[lower][:2] - cxy)), np.hypot(*(pos2[lower][:2] - cxy))
        ang = math.atan2(*(pos2[lower][:2] - cxy)[::-1]) - math.atan2(*(pos1[lower][:2] - cxy)[::-1])
        ctx.prove("radially-clamped-vertex-keeps-radius-and-height", abs(r1 - r2) < 1e-8 and abs(pos2[lower][2] - pos1[lower][2]) < 1e-9)
        ctx.prove("radially-clamped-vertex-stays-inside-the-arc-length-bounds", abs(ang * r1) <= 0.15 + 1e-7, arc=ang * r1)
    ctx.prove("mesh-vertices-equal-the-optimizers-final-positions", np.allclose(pos2, np.asarray(opt.grid.points, dtype=float), atol=0))


@proof("C13", "bounded/degenerate-cells-are-reported-not-measured", cases=["zero-length-edge", "collinear-corner", "curve-ending-in-a-neighbour"], level="B", samples=3,
       functions=["classy_blocks.optimize.cell:CellBase.quality", OP + "optimize_clamp", "classy_blocks.optimize.clamps.curve:CurveClamp.__init__"],
       note="bounded stand-in: a quad with a collapsed edge / a straightened corner has no quality (ValueError, never NaN); an optimisation whose "
            "trials run into such a cell (clamp curve ending in a neighbouring point) is rolled back: no collapsed cell left, finite quality, not worse")
def degenerate_cells(ctx):
    from classy_blocks.construct.curves.analytic import AnalyticCurve
    from classy_blocks.optimize.cell import QuadCell
    from classy_blocks.optimize.clamps.curve import CurveClamp

    rng = ctx.rng
    if ctx.case in ("zero-length-edge", "collinear-corner"):
        P = np.array([[0.0, 0.0, 0.0], [1.0, 0.0, 0.0], [1.0, 1.0, 0.0], [0.0, 1.0, 0.0]]) * rng.uniform(0.5, 2) + np.array([rng.uniform(-3, 3), rng.uniform(-3, 3), 0.0])
        if ctx.case == "zero-length-edge":
            P[2] = P[1]
        else:
            P[1] = (P[0] + P[2]) / 2 - (P[2] - P[0]) * 0.0      # corner 1 on the diagonal: corners 0, 1, 2 collinear
        value, exc = ctx.call(lambda: QuadCell(P, [0, 1, 2, 3]).quality)
        ctx.prove("no-number-for-a-degenerate-cell", isinstance(exc, ValueError) or (exc is None and np.isfinite(value)), value=repr(value), exc=repr(exc))
        ctx.prove("never-nan", exc is not None or not np.isnan(value))
        return
    positions = np.array([[0, 0, 0], [1, 0, 0], [2, 0, 0], [0, 1, 0], [1, 1.6, 0], [2, 1, 0], [0, 2, 0], [1, 2, 0], [2, 2, 0]], dtype=float)
    sketch = cb.MappedSketch(positions, [list(q) for q in QUADS])
    start = np.array(sketch.positions, dtype=float).copy()
    q_before = QuadGrid.from_sketch(sketch).quality
    curve = AnalyticCurve(lambda t: np.array([1.0, max(0.0, 1.6 - 2 * (t - 1)), 0.0]), (0.9, 2))   # runs down x = 1 and ends in point 1
    opt = SketchOptimizer(sketch, report=False)
    opt.add_clamp(CurveClamp(positions[4], curve, initial_param=1.0))
    import contextlib
    import io

    with contextlib.redirect_stdout(io.StringIO()):
        opt.optimize(max_iterations=rng.randint(1, 3), method=rng.choice(["SLSQP", "L-BFGS-B", "Nelder-Mead", "Powell"]))
    end = np.array(sketch.positions, dtype=float)
    ctx.prove("unclamped-points-do-not-move", all(np.array_equal(end[i], start[i]) for i in range(9) if i != 4))
    ctx.prove("no-collapsed-cell-left-behind", float(np.linalg.norm(end[4] - end[1])) > 1e-3, end=end[4].tolist())
    q_after, exc = ctx.call(lambda: QuadGrid.from_sketch(sketch).quality)
    ctx.prove("quality-finite-and-not-worse", exc is None and np.isfinite(q_after) and q_after <= q_before + 1e-9, before=q_before, after=repr(q_after), exc=repr(exc))
