"""C11 — predefined shapes give right-handed, conformal, fully choppable blockings."""
import math
import os
import tempfile

import numpy as np

import classy_blocks as cb
from classy_blocks.base import transforms as tr
from classy_blocks.mesh import Mesh
from contracts.spec import hexa
from pyvc.harness import proof
from pyvc.sym import And, Not, Or


# ------------------------------------------------------------------------------ placement
class Place:
    """A rigid placement: origin c, orthonormal frame (e1, e2, e3 = axis), scale s."""

    def __init__(self, rng=None):
        if rng is None:
            self.c, self.s = np.array([0.3, -0.2, 0.5]), 1.0
            q = np.array([0.9, 0.2, -0.3, 0.25])
        else:
            self.c = np.array([rng.uniform(-5, 5) for _ in range(3)])
            self.s = 10 ** rng.uniform(-1, 1)
            q = np.array([rng.uniform(-1, 1) for _ in range(4)])
        q = q / np.linalg.norm(q)
        a, b, c, d = q
        self.R = np.array([[a * a + b * b - c * c - d * d, 2 * (b * c - a * d), 2 * (b * d + a * c)],
                           [2 * (b * c + a * d), a * a - b * b + c * c - d * d, 2 * (c * d - a * b)],
                           [2 * (b * d - a * c), 2 * (c * d + a * b), a * a - b * b - c * c + d * d]])

    def P(self, x, y, z):
        return self.c + self.s * (self.R @ np.array([x, y, z], dtype=float))

    def V(self, x, y, z):
        return self.R @ np.array([x, y, z], dtype=float)


def chop_round(shape):
    shape.chop_axial(count=3)
    shape.chop_radial(count=2)
    shape.chop_tangential(count=3)


def chop_axes(shape):
    for ax in (0, 1, 2):
        shape.chop(ax, count=2)


def chop_op(op):
    for ax in (0, 1, 2):
        op.chop(ax, count=2)


def face(pl, z=0.0, size=1.0):
    return cb.Face([pl.P(0, 0, z), pl.P(size, 0, z), pl.P(size, size, z), pl.P(0, size, z)])


def build(kind, pl, rng=None):
    """Returns (list of entities to add, chop function applied per entity or None, info dict)."""
    r = (lambda a, b: rng.uniform(a, b)) if rng else (lambda a, b: (a + b) / 2)
    n_seg = (rng.choice([4, 8, 12]) if rng else 8)
    info = {}
    if kind == "Box":
        op = cb.Box(pl.c, pl.c + np.array([r(0.5, 2), r(0.5, 2), r(0.5, 2)]) * pl.s)
        return [op], chop_op, info
    if kind == "Extrude":
        return [cb.Extrude(face(pl), r(0.5, 2) * pl.s)], chop_op, info
    if kind == "Revolve":
        # face normal along the direction of rotation (right-hand rule about the axis)
        f_ = cb.Face([pl.P(1, 0, 0), pl.P(1, 0, 1), pl.P(2, 0, 1), pl.P(2, 0, 0)])
        return [cb.Revolve(f_, r(0.3, 1.2), pl.V(0, 0, 1), pl.c)], chop_op, {"arc_axis": (pl.c, pl.V(0, 0, 1))}
    if kind == "Wedge":
        f_ = cb.Face([[0, 0.5, 0], [1, 0.5, 0], [1, 1.2, 0], [0, 1.2, 0]])
        return [cb.Wedge(f_, r(0.03, 0.1))], chop_op, {"degenerate_ok": True}
    if kind in ("Cylinder", "SemiCylinder"):
        cls = cb.Cylinder if kind == "Cylinder" else cb.SemiCylinder
        info = {"axis": (pl.c, pl.V(0, 0, 1)), "radius": pl.s * 1.0}
        return [cls(pl.P(0, 0, 0), pl.P(0, 0, r(0.5, 3)), pl.P(1, 0, 0))], chop_round, info
    if kind == "Frustum":
        return [cb.Frustum(pl.P(0, 0, 0), pl.P(0, 0, r(0.5, 3)), pl.P(1, 0, 0), r(0.3, 0.8) * pl.s)], chop_round, info
    if kind == "Frustum-mid":
        return [cb.Frustum(pl.P(0, 0, 0), pl.P(0, 0, 2), pl.P(1, 0, 0), 0.6 * pl.s, radius_mid=0.9 * pl.s)], chop_round, info
    if kind == "Elbow":
        return [cb.Elbow(pl.P(0, 0, 0), pl.P(1, 0, 0), pl.V(0, 0, 1), r(0.4, 1.4), pl.P(3, 0, 0), pl.V(0, 1, 0), r(0.6, 1.3) * pl.s)], chop_round, info
    if kind == "ExtrudedRing":
        info = {"axis": (pl.c, pl.V(0, 0, 1)), "radius": pl.s * 1.0}
        return [cb.ExtrudedRing(pl.P(0, 0, 0), pl.P(0, 0, r(0.5, 2)), pl.P(1, 0, 0), r(0.3, 0.7) * pl.s, n_segments=n_seg)], chop_round, info
    if kind == "RevolvedRing":
        cs = cb.Face([pl.P(0, 1.0, 0), pl.P(1.0, 1.0, 0), pl.P(1.0, 1.6, 0), pl.P(0, 1.4, 0)])
        return [cb.RevolvedRing(pl.P(0, 0, 0), pl.P(1, 0, 0), cs, n_segments=n_seg)], chop_round, {"arc_axis": (pl.P(0, 0, 0), pl.V(1, 0, 0))}
    if kind == "Hemisphere":
        return [cb.Hemisphere(pl.P(0, 0, 0), pl.P(1, 0, 0), pl.V(0, 0, 1))], chop_round, info
    if kind in ("OneCoreDisk", "FourCoreDisk", "HalfDisk"):
        sk = getattr(cb, kind)(pl.P(0, 0, 0), pl.P(1, 0, 0), pl.V(0, 0, 1))
        return [cb.ExtrudedShape(sk, r(0.5, 2) * pl.s)], chop_axes, info
    if kind == "WrappedDisk":
        sk = cb.WrappedDisk(pl.P(0, 0, 0), pl.P(1.5, 1.5, 0), 0.8 * pl.s, pl.V(0, 0, 1))
        return [cb.ExtrudedShape(sk, r(0.5, 2) * pl.s)], chop_axes, info
    if kind == "Oval":
        sk = cb.Oval(pl.P(0, 0, 0), pl.P(0, 1.5, 0), pl.V(0, 0, 1), 0.7 * pl.s)
        return [cb.ExtrudedShape(sk, r(0.5, 2) * pl.s)], chop_axes, info
    if kind == "Grid":
        sk = cb.Grid([0, 0, 0], [3, 2, 0], 3, 2)
        sk.rotate(0.7, [0.2, 0.5, 1.0], [0, 0, 0]).translate(pl.c)
        sh = cb.ExtrudedShape(sk, r(0.5, 2))

        def chop_grid(shape):
            shape.chop(2, count=2)
            for op in shape.operations:
                op.chop(0, count=2)
                op.chop(1, count=2)
        return [sh], chop_grid, info
    if kind.endswith("SplineDisk") or kind.endswith("SplineRing"):
        args = [pl.P(0, 0, 0), pl.P(1.5, 0, 0), pl.P(0, 1.0, 0), 0.3 * pl.s, 0.2 * pl.s]
        if kind.endswith("Ring"):
            args += [r(0.2, 0.4) * pl.s, r(0.1, 0.19) * pl.s]
        sk = getattr(cb, kind)(*args)
        return [cb.ExtrudedShape(sk, r(0.5, 2) * pl.s)], chop_axes, info
    if kind == "ExtrudedStack":
        sk = cb.Grid([0, 0, 0], [2, 2, 0], 2, 2)
        st = cb.ExtrudedStack(sk, r(1, 3), 3)

        def chop_stack(stack):
            stack.chop(count=2)
            for op in stack.shapes[0].operations:
                op.chop(0, count=2)
                op.chop(1, count=2)
        return [st], chop_stack, info
    if kind == "RevolvedStack":
        sk = cb.Grid([1, 0, 0], [3, 2, 0], 2, 2)
        st = cb.RevolvedStack(sk, r(0.5, 2.0), [0, -1, 0], [0.4, 0, 0.2], 3)   # axis of revolution away from the coordinate origin
        info = {"arc_axis": (np.array([0.4, 0, 0.2]), np.array([0.0, -1.0, 0.0]))}

        def chop_stack(stack):
            stack.chop(count=2)
            for op in stack.shapes[0].operations:
                op.chop(0, count=2)
                op.chop(1, count=2)
        return [st], chop_stack, info
    if kind == "TransformedStack-tapered":
        sk = cb.Oval(pl.P(0, 0, 0), pl.P(0, 1.5, 0), pl.V(0, 0, 1), 0.7 * pl.s)
        st = cb.TransformedStack(sk, [tr.Translation(pl.V(0, 0, 1) * pl.s), tr.Scaling(r(0.7, 0.9))], 3)

        def chop_stack(stack):
            stack.chop(count=2)
            for ax in (0, 1):
                for i in sk.chops[ax]:
                    stack.shapes[0].operations[i].chop(ax, count=2)
        return [st], chop_stack, info
    if kind in ("LJoint", "TJoint", "NJoint-3", "NJoint-4", "NJoint-5"):
        if kind == "LJoint":
            j = cb.LJoint(pl.P(-3, 0, 0), pl.P(0, 0, 0), pl.P(-3, 0, 0.6))
        elif kind == "TJoint":
            j = cb.TJoint(pl.P(-3, 0, 0), pl.P(0, 0, 0), pl.P(-3, 0, 0.6))
        else:
            j = cb.NJoint(pl.P(-3, 0, 0), pl.P(0, 0, 0), pl.P(-3, 0, 0.6), int(kind[-1]))
        return [j], chop_round, info
    raise ValueError(kind)


KINDS = ["Box", "Extrude", "Revolve", "Cylinder", "SemiCylinder", "Frustum", "Frustum-mid", "Elbow", "ExtrudedRing", "RevolvedRing", "Hemisphere",
         "OneCoreDisk", "FourCoreDisk", "HalfDisk", "WrappedDisk", "Oval", "Grid", "QuarterSplineDisk", "HalfSplineDisk", "SplineDisk",
         "QuarterSplineRing", "HalfSplineRing", "SplineRing", "ExtrudedStack", "RevolvedStack", "TransformedStack-tapered",
         "LJoint", "TJoint", "NJoint-3", "NJoint-5", "NJoint-4"]


def operations_of(entities):
    ops = []
    for e in entities:
        ops += [e] if isinstance(e, cb.Operation) else list(e.operations)
    return ops


def jacobians(P):
    out = []
    for c, (a, b, d) in {0: (1, 3, 4), 1: (2, 0, 5), 2: (3, 1, 6), 3: (0, 2, 7), 4: (7, 5, 0), 5: (4, 6, 1), 6: (5, 7, 2), 7: (6, 4, 3)}.items():
        out.append(float(np.dot(np.cross(P[a] - P[c], P[b] - P[c]), P[d] - P[c])))
    return out


def check_blocking(ctx, kind, entities, chop, info, tol_scale=1.0):
    ops = operations_of(entities)
    # 1. right-handed, positive corner Jacobians (scaled by the cube of the mean edge length)
    for k, op in enumerate(ops):
        P = np.asarray(op.point_array, dtype=float)
        size = np.mean([np.linalg.norm(P[a] - P[b]) for a, b in hexa.EDGE_SPEC])
        J = np.array(jacobians(P)) / size ** 3
        if info.get("degenerate_ok"):
            ctx.prove("right-handed-with-non-negative-corner-jacobians", bool(np.all(J > -1e-9)) and bool(np.any(J > 1e-6)), block=k, jac=J.round(4).tolist())
        else:
            ctx.prove("right-handed-with-positive-corner-jacobians", bool(np.all(J > 1e-6)), block=k, jac=J.round(4).tolist())
    # 2. conformity: touching blocks share vertices; blocking is face-connected; expected vertex count
    mesh = Mesh()
    for e in entities:
        mesh.add(e)
    if chop is not None:
        for e in entities:
            chop(e)
    mesh.assemble()
    allp = np.array([np.asarray(p, dtype=float) for op in ops for p in op.point_array])
    scale = np.max(np.linalg.norm(allp - allp.mean(axis=0), axis=1)) + 1e-30
    # independent count of distinct corner positions (tolerance relative to the size of the shape)
    distinct = []
    for p in allp:
        if not any(np.linalg.norm(p - q) < 1e-7 * scale for q in distinct):
            distinct.append(p)
    ctx.prove("one-vertex-per-distinct-corner-position", len(mesh.vertices) == len(distinct), vertices=len(mesh.vertices), distinct=len(distinct))
    # no two distinct vertices suspiciously close (a sign of non-conformal interfaces)
    V = np.array([np.asarray(v.position, dtype=float) for v in mesh.vertices])
    close = 0
    for i in range(len(V)):
        d = np.linalg.norm(V - V[i], axis=1)
        close += int(np.sum((d > 0) & (d < 1e-4 * scale)))
    ctx.prove("no-nearly-coincident-vertices", close == 0)
    # face-connected: blocks sharing 4 vertices form one connected graph
    idx = [frozenset(b.indexes) for b in mesh.blocks]
    faces = [[frozenset(b.indexes[c] for c in hexa.FACE_SPEC[s]) for s in hexa.SIDES] for b in mesh.blocks]
    adj = {i: set() for i in range(len(idx))}
    for i in range(len(idx)):
        for j in range(i):
            if any(fi == fj for fi in faces[i] for fj in faces[j]):
                adj[i].add(j)
                adj[j].add(i)
    seen, stack = {0}, [0]
    while stack:
        for n in adj[stack.pop()]:
            if n not in seen:
                seen.add(n)
                stack.append(n)
    ctx.prove("blocking-is-face-connected", len(seen) == len(idx), blocks=len(idx), reached=len(seen))
    # 3. outer arcs on the intended circle
    if "axis" in info:
        c0, ax = info["axis"]
        R = info["radius"]
        n_arcs = 0
        for e in mesh.edge_list.edges:
            if e.kind in ("origin", "arc", "angle"):
                p1, p2 = np.asarray(e.vertex_1.position, dtype=float), np.asarray(e.vertex_2.position, dtype=float)
                rad = lambda p: np.linalg.norm((p - c0) - ax * np.dot(p - c0, ax))
                if abs(rad(p1) - R) < 1e-6 * R and abs(rad(p2) - R) < 1e-6 * R:
                    n_arcs += 1
                    ctx.prove("outer-arc-middle-point-on-the-intended-circle", abs(rad(np.asarray(e.third_point.position, dtype=float)) - R) < 1e-6 * R)
        ctx.prove("outer-arcs-present", n_arcs > 0)
    # 3b. revolved shapes: every arc between two points of one circle about the axis of revolution stays on that circle
    if "arc_axis" in info:
        c0, ax = info["arc_axis"]
        ax = np.asarray(ax, dtype=float) / np.linalg.norm(ax)
        polar = lambda p: (float(np.dot(p - c0, ax)), float(np.linalg.norm((p - c0) - ax * np.dot(p - c0, ax))))
        n_arcs = 0
        for e in mesh.edge_list.edges:
            if e.kind in ("origin", "arc", "angle"):
                (a1, r1), (a2, r2) = polar(np.asarray(e.vertex_1.position, dtype=float)), polar(np.asarray(e.vertex_2.position, dtype=float))
                if abs(a1 - a2) < 1e-7 * scale and abs(r1 - r2) < 1e-7 * scale:
                    n_arcs += 1
                    am, rm = polar(np.asarray(e.third_point.position, dtype=float))
                    ctx.prove("arc-of-revolution-stays-on-its-circle-about-the-axis", abs(am - a1) < 1e-6 * scale and abs(rm - r1) < 1e-6 * scale,
                              axial=(a1, am), radius=(r1, rm))
                    # ... and runs the short way from one end to the other: its middle point lies between them
                    radial = lambda p: ((p - c0) - ax * np.dot(p - c0, ax)) / max(r1, 1e-30)
                    u1, u2, um = (radial(np.asarray(q.position, dtype=float)) for q in (e.vertex_1, e.vertex_2, e.third_point))
                    ctx.prove("arc-of-revolution-runs-between-its-end-points", np.dot(u1, um) > np.dot(u1, u2) - 1e-9 and np.dot(um, u2) > np.dot(u1, u2) - 1e-9,
                              between=(float(np.dot(u1, um)), float(np.dot(um, u2)), float(np.dot(u1, u2))))
        ctx.prove("arcs-of-revolution-present", n_arcs > 0)
    # 4. the documented chop calls are sufficient for writing
    if chop is not None:
        fd, path = tempfile.mkstemp(suffix=".bmd", dir=os.environ.get("TMPDIR"))
        os.close(fd)
        try:
            _, exc = ctx.call(mesh.write, path)
        finally:
            if os.path.exists(path):
                os.remove(path)
        ctx.prove("documented-chops-suffice-for-writing", exc is None, exc=repr(exc)[:160])


@proof("C11", "shapes/canonical-general-placement", cases=KINDS, level="S", samples=1,
       functions=["classy_blocks.construct.shape:LoftedShape.__init__", "classy_blocks.construct.shape:LoftedShape.chop", "classy_blocks.construct.shapes.round:RoundSolidShape.chop_radial",
                  "classy_blocks.construct.flat.sketches.disk:FanPattern", "classy_blocks.construct.flat.sketches.mapped:MappedSketch.__init__",
                  "classy_blocks.construct.operations.operation:Operation.from_series", "classy_blocks.construct.assemblies.joints:JointBase.__init__",
                  "classy_blocks.construct.stack:TransformedStack.__init__", "classy_blocks.base.element:ElementBase.transform"],
       note="shape-bounded: every shape class once in a fixed general (rotated, shifted) placement; executed contract, no symbolic content")
def canonical(ctx):
    entities, chop, info = build(ctx.case, Place(None))
    check_blocking(ctx, ctx.case, entities, chop, info)


@proof("C11", "bounded/shapes-random-placement", cases=KINDS, level="B", samples=4,
       functions=["classy_blocks.construct.shape:LoftedShape.__init__"], note="bounded stand-in: random position, orientation, scale 0.1..10, sizes, segment counts")
def random_placement(ctx):
    entities, chop, info = build(ctx.case, Place(ctx.rng), ctx.rng)
    check_blocking(ctx, ctx.case, entities, chop, info)


# ------------------------------------------------------------------------------ chaining
def shared_vertices(mesh, ops_a, ops_b):
    blocks = mesh.blocks
    na = len(ops_a)
    va = {i for b in blocks[:na] for i in b.indexes}
    vb = {i for b in blocks[na:] for i in b.indexes}
    return va & vb


CHAINS = ["cylinder>cylinder", "cylinder>frustum", "frustum>elbow", "elbow>cylinder-start", "ring>ring", "cylinder>expand", "ring>contract", "ring>fill",
          "hemisphere<cylinder", "hemisphere<elbow", "hemisphere<frustum", "hemisphere<cylinder-start", "chain-of-four"]


@proof("C11", "chaining/interface-vertices-shared", cases=CHAINS, level="S", samples=3,
       functions=["classy_blocks.construct.shapes.cylinder:Cylinder.chain", "classy_blocks.construct.shapes.cylinder:Cylinder.fill",
                  "classy_blocks.construct.shapes.frustum:Frustum.chain", "classy_blocks.construct.shapes.elbow:Elbow.chain",
                  "classy_blocks.construct.shapes.rings:ExtrudedRing.chain", "classy_blocks.construct.shapes.rings:ExtrudedRing.expand",
                  "classy_blocks.construct.shapes.rings:ExtrudedRing.contract", "classy_blocks.construct.shapes.sphere:Hemisphere.chain"],
       note="the chained shape shares exactly the vertices of the interface sketch with its source (general placement; random in the bounded tier)")
def chaining(ctx):
    pl = Place(None if ctx.symbolic else ctx.rng)
    case = ctx.case
    cyl = cb.Cylinder(pl.P(0, 0, 0), pl.P(0, 0, 1.5), pl.P(1, 0, 0))
    ring = cb.ExtrudedRing(pl.P(0, 0, 0), pl.P(0, 0, 1.5), pl.P(1, 0, 0), 0.5 * pl.s, n_segments=8)
    if case == "cylinder>cylinder":
        pair = [cyl, cb.Cylinder.chain(cyl, 1.0 * pl.s)]
        n_if = 17
    elif case == "cylinder>frustum":
        pair = [cyl, cb.Frustum.chain(cyl, 1.0 * pl.s, 0.5 * pl.s)]
        n_if = 17
    elif case == "frustum>elbow":
        fr = cb.Frustum(pl.P(0, 0, 0), pl.P(0, 0, 1.5), pl.P(1, 0, 0), 0.6 * pl.s)
        pair = [fr, cb.Elbow.chain(fr, 1.0, pl.P(3, 0, 1.5), pl.V(0, 1, 0), 0.5 * pl.s)]
        n_if = 17
    elif case == "elbow>cylinder-start":
        el = cb.Elbow(pl.P(0, 0, 0), pl.P(1, 0, 0), pl.V(0, 0, 1), 1.0, pl.P(3, 0, 0), pl.V(0, 1, 0), 0.8 * pl.s)
        pair = [el, cb.Cylinder.chain(el, 1.0 * pl.s, start_face=True)]
        n_if = 17
    elif case == "ring>ring":
        pair = [ring, cb.ExtrudedRing.chain(ring, 1.0 * pl.s)]
        n_if = 16
    elif case == "cylinder>expand":
        pair = [cyl, cb.ExtrudedRing.expand(cyl, 0.4 * pl.s)]
        n_if = 16       # 8 rim points on each end face
    elif case == "ring>contract":
        pair = [ring, cb.ExtrudedRing.contract(ring, 0.25 * pl.s)]
        n_if = 16
    elif case == "ring>fill":
        pair = [ring, cb.Cylinder.fill(ring)]
        n_if = 16
    elif case == "hemisphere<cylinder":
        pair = [cyl, cb.Hemisphere.chain(cyl)]
        n_if = 17
    elif case == "hemisphere<elbow":
        # the end face of an elbow is not perpendicular to the line between its two face centres
        el = cb.Elbow(pl.P(0, 0, 0), pl.P(1, 0, 0), pl.V(0, 0, 1), 1.1, pl.P(3, 0, 0), pl.V(0, 1, 0), 0.8 * pl.s)
        pair = [el, cb.Hemisphere.chain(el)]
        n_if = 17
    elif case == "hemisphere<frustum":
        fr = cb.Frustum(pl.P(0, 0, 0), pl.P(0, 0, 1.5), pl.P(1, 0, 0), 0.6 * pl.s)
        pair = [fr, cb.Hemisphere.chain(fr)]
        n_if = 17
    elif case == "hemisphere<cylinder-start":
        pair = [cyl, cb.Hemisphere.chain(cyl, start_face=True)]
        n_if = 17
    else:
        a = cyl
        b = cb.Frustum.chain(a, 1.0 * pl.s, 0.6 * pl.s)
        c = cb.Elbow.chain(b, 0.9, b.sketch_2.center + pl.V(1, 0, 0) * 3 * pl.s, pl.V(0, 1, 0), 0.6 * pl.s)
        d = cb.Cylinder.chain(c, 1.0 * pl.s)
        pair = [a, b, c, d]
        n_if = None
    mesh = Mesh()
    for s in pair:
        mesh.add(s)
    mesh.assemble(skip_edges=True)
    if n_if is not None:
        sh = shared_vertices(mesh, list(pair[0].operations), list(pair[1].operations))
        ctx.prove("exactly-the-interface-vertices-are-shared", len(sh) == n_if, shared=len(sh), expected=n_if)
    else:
        total = len(mesh.vertices)
        each = []
        for s in pair:
            m2 = Mesh()
            m2.add(s)
            m2.assemble(skip_edges=True)
            each.append(len(m2.vertices))
        ctx.prove("chain-of-four-shares-three-interfaces", total == sum(each) - 3 * 17, total=total, each=each)
    for s in pair:
        for op in s.operations:
            P = np.asarray(op.point_array, dtype=float)
            size = np.mean([np.linalg.norm(P[a_] - P[b_]) for a_, b_ in hexa.EDGE_SPEC])
            ctx.prove("chained-blocks-right-handed", bool(np.all(np.array(jacobians(P)) / size ** 3 > 1e-6)))


@proof("C11", "joints/branches-share-their-cusp-faces", cases=["LJoint", "TJoint", "NJoint-3", "NJoint-5"], level="S", samples=3,
       functions=["classy_blocks.construct.assemblies.joints:JointBase.__init__", "classy_blocks.construct.assemblies.joints:CuspSemiCylinder.__init__"],
       note="neighbouring branches of a joint meet in one slanted half-disk face: they share exactly the points of a half-disk sketch (H), "
            "branches that are not neighbours share only the points on the common diameter (D); a two-branch joint shares both faces (2H - D)")
def joints_conformal(ctx):
    pl = Place(None if ctx.symbolic else ctx.rng)
    (joint,), _, _ = build(ctx.case, pl, None if ctx.symbolic else ctx.rng)
    hd = cb.HalfDisk([0.0, 0.0, 0.0], [1.0, 0.0, 0.0], [0.0, 0.0, 1.0])
    pts = {tuple(np.round(np.asarray(p.position, dtype=float), 9)) for f_ in hd.faces for p in f_.points}
    H = len(pts)
    D = len({p for p in pts if abs(p[1]) < 1e-9})       # points on the straight (diameter) side, through the centre along the radius vector
    mesh = Mesh()
    mesh.add(joint)
    mesh.assemble(skip_edges=True)
    k, sets = 0, []
    for asm in joint.assemblies:
        n = len(asm.operations)
        sets.append({i for b in mesh.blocks[k:k + n] for i in b.indexes})
        k += n
    nb = len(sets)
    for i in range(nb):
        for j in range(i):
            adjacent = (i - j) % nb in (1, nb - 1)
            want = (2 * H - D) if nb == 2 else (H if adjacent else D)
            ctx.prove("branches-share-exactly-their-common-cusp-face", len(sets[i] & sets[j]) == want, pair=(j, i), shared=len(sets[i] & sets[j]), want=want)
