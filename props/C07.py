"""C07 — curved-edge entries are unique, on real block edges and correctly directed."""
import numpy as np

from classy_blocks.construct import edges as E
from classy_blocks.construct.curves.discrete import DiscreteCurve
from classy_blocks.construct.flat.face import Face
from classy_blocks.construct.operations.operation import Operation
from classy_blocks.items.block import Block
from classy_blocks.items.edges import edge as edge_mod
from classy_blocks.items.edges.factory import factory
from classy_blocks.items.vertex import Vertex
from classy_blocks.lists.edge_list import EdgeList
from classy_blocks.mesh import Mesh
from classy_blocks.util import functions as f
from classy_blocks.util.constants import TOL
from contracts.spec import hexa
from pyvc.harness import proof
from pyvc.sym import And, Not, Or
from contracts.spec import geom as G

EL = "classy_blocks.lists.edge_list:EdgeList."
KINDS = ["arc", "origin", "angle", "spline", "polyLine", "project", "curve"]
CUBE = [[0.0, 0.0, 0.0], [1.0, 0.0, 0.0], [1.0, 1.0, 0.0], [0.0, 1.0, 0.0],
        [0.0, 0.0, 1.0], [1.0, 0.0, 1.0], [1.0, 1.0, 1.0], [0.0, 1.0, 1.0]]


def token(ctx, kind, slot):
    """Edge data of `kind` with (symbolic) payload, intended for EDGE_SPEC[slot] = a→b."""
    n = f"e{slot}"
    if kind == "arc":
        return E.Arc([0.5 + 0.01 * slot, 0.4, -0.3])
    if kind == "origin":
        return E.Origin([0.5, 0.5 + 0.01 * slot, 0.5])
    if kind == "angle":
        a, b = hexa.EDGE_SPEC[slot]
        d = np.array(CUBE[b]) - np.array(CUBE[a])
        axis = [1.0, 0.0, 0.0] if abs(d[2]) > 0.5 else [0.0, 0.0, 1.0]  # perpendicular to the edge
        return E.Angle(1.0, axis)
    if kind == "spline":
        return E.Spline([ctx.vec(n + "s0"), ctx.vec(n + "s1")])
    if kind == "polyLine":
        return E.PolyLine([ctx.vec(n + "s0"), ctx.vec(n + "s1"), ctx.vec(n + "s2")])
    if kind == "project":
        return E.Project("geo" + str(slot))
    if kind == "curve":
        return E.OnCurve(DiscreteCurve([[0.0, 0.0, float(slot)], [1.0, 2.0, 3.0], [2.0, 0.0, 1.0]]))
    raise ValueError(kind)


def op_with_tokens(ctx, kind, points=None):
    pts = np.array(CUBE) if points is None else points
    toks = [token(ctx, kind, s) for s in range(12)]
    bottom = Face(pts[:4], toks[0:4])
    top = Face(pts[4:], toks[4:8])
    op = Operation(bottom, top)
    for i in range(4):
        op.add_side_edge(i, toks[8 + i])
    return op, toks


@proof("C07", "EdgeList.add_from_operation/direction", cases=KINDS,
       functions=[EL + "add_from_operation", EL + "add", EL + "find", "classy_blocks.util.frame:Frame.get_all_beams",
                  "classy_blocks.util.frame:Frame.add_beam", "classy_blocks.construct.operations.operation:Operation.edges",
                  "classy_blocks.items.edges.factory:EdgeFactory.create"],
       note="unit-cube corners; 12 distinct data tokens (spline/polyLine payload symbolic), one per EDGE_SPEC slot; "
            "the enumeration does not read coordinates")
def direction(ctx):
    kind = ctx.case
    pts = np.array(CUBE)
    op, toks = op_with_tokens(ctx, kind, pts)
    vertices = [Vertex(pts[i], 20 + i) for i in range(8)]
    el = EdgeList()
    out = el.add_from_operation(vertices, op)
    by_tok = {}
    for c1, c2, edge in out:
        by_tok.setdefault(id(edge.data), []).append((c1, c2, edge))
    for slot, (a, b) in enumerate(hexa.EDGE_SPEC):
        got = by_tok.get(id(toks[slot]), [])
        ctx.prove(f"slot{slot}/reported-once", len(got) == 1)
        if len(got) == 1:
            c1, c2, edge = got[0]
            ctx.prove(f"slot{slot}/corner-pair-in-user-direction", (c1, c2) == (a, b), got=(c1, c2), want=(a, b))
            ctx.prove(f"slot{slot}/edge-runs-between-those-vertices-in-that-order",
                      edge.vertex_1 is vertices[a] and edge.vertex_2 is vertices[b])
    ctx.prove("twelve-tuples", len(out) == 12)
    ctx.prove("stored-edges-are-exactly-the-valid-ones",
              len(el.edges) == len({id(e) for e in el.edges}) and all(any(e is x for x in el.edges) == bool(e.is_valid) for _, _, e in out))


@proof("C07", "written-data-follows-direction", cases=[(k, s) for k in ("spline", "polyLine") for s in range(12)],
       functions=["classy_blocks.items.edges.curve:SplineEdge.point_array", "classy_blocks.items.edges.curve:SplineEdge.length",
                  "classy_blocks.items.edges.curve:CurveEdgeBase.description", "classy_blocks.mesh:Mesh.assemble",
                  "classy_blocks.items.block:Block.add_edge"],
       note="unit-cube corners (concrete), spline points symbolic; checks the assembled block's wire of every slot")
def written_direction(ctx):
    kind, slot = ctx.case
    a, b = hexa.EDGE_SPEC[slot]
    op, toks = op_with_tokens(ctx, kind)
    user_points = [np.array(p) for p in toks[slot].curve.array.points]
    mesh = Mesh()
    mesh.add(op)
    mesh.assemble()
    blk = mesh.blocks[0]
    wire = blk.wires[a][b]
    edge = wire.edge
    ctx.prove("wire-holds-the-users-data", edge.data is toks[slot])
    ctx.prove("entry-vertices-are-the-corner-vertices",
              {edge.vertex_1.index, edge.vertex_2.index} == {blk.vertices[a].index, blk.vertices[b].index})
    # the point list as written runs from the entry's first vertex to its second; the user gave
    # the points from corner a to corner b
    written = list(edge.point_array)
    if edge.vertex_1.index == blk.vertices[a].index:
        expect = user_points
    else:
        expect = user_points[::-1]
    ctx.prove("point-order-consistent-with-entry-vertex-order",
              len(written) == len(expect) and And([ctx.eq(w, e) for w, e in zip(written, expect)]))
    # edge length used for grading = length of the polyline a → user points → b
    chain = [np.array(CUBE[a])] + user_points + [np.array(CUBE[b])]
    length = 0
    for p, q in zip(chain[:-1], chain[1:]):
        length = length + f.norm(q - p)
    ctx.prove("grading-length-is-the-users-curve-length", ctx.eq(wire.length, length))
    ctx.prove("one-entry-per-defined-edge", len(mesh.edge_list.edges) == 12)
    desc = edge.description
    ctx.prove("entry-names-its-two-vertices", desc.startswith(f"\t{kind} {edge.vertex_1.index} {edge.vertex_2.index} ("))


@proof("C07", "Block.add_edge/on-that-wire", cases=[(a, b) for a in range(8) for b in range(8) if hexa.is_edge(a, b)],
       functions=["classy_blocks.items.block:Block.add_edge"])
def block_add_edge(ctx):
    a, b = ctx.case
    vs = [Vertex(CUBE[i], i) for i in range(8)]
    blk = Block(0, vs)
    before = {e: blk.wires[min(e)][max(e)].edge for e in hexa.EDGE_SETS}
    new = factory.create(vs[a], vs[b], E.Arc(ctx.vec("p")))
    blk.add_edge(a, b, new)
    ctx.prove("exactly-that-wire", all((blk.wires[min(e)][max(e)].edge is new) if e == frozenset((a, b))
                                       else (blk.wires[min(e)][max(e)].edge is before[e]) for e in hexa.EDGE_SETS))
    ctx.prove("wire-is-the-same-object-from-both-ends", blk.wires[a][b] is blk.wires[b][a])


# ------------------------------------------------------------------------------ uniqueness
@proof("C07", "EdgeList.add/first-definition-wins", cases=[0, 1, 2, 3], level="S",
       functions=[EL + "add", EL + "find"],
       note="shape bound: a list of m = 0..3 existing edges; vertex indexes are symbolic integers")
def add_unique(ctx):
    m = ctx.case
    el = EdgeList()
    existing = []
    for i in range(m):
        a, b = ctx.int(f"a{i}", 0, 50), ctx.int(f"b{i}", 0, 50)
        ctx.assume(Not(a == b))
        e = factory.create(Vertex([float(i), 0.0, 0.0], a), Vertex([float(i), 1.0, 0.0], b), E.Arc([float(i), 0.5, 0.5]))
        existing.append((a, b, e))
    # representation invariant: no two stored edges join the same pair of vertices
    for i in range(m):
        for j in range(i):
            ai, bi, _ = existing[i]
            aj, bj, _ = existing[j]
            ctx.assume(Not(Or(And(ai == aj, bi == bj), And(ai == bj, bi == aj))))
    for i in range(m):
        a, b, e = existing[i]
        got = el.add(e.vertex_1, e.vertex_2, e.data)   # populated through the public API
        existing[i] = (a, b, got)
    ctx.prove("populated", len(el.edges) == m)
    x, y = ctx.int("x", 0, 50), ctx.int("y", 0, 50)
    ctx.assume(Not(x == y))
    data = E.Arc([9.0, 9.5, 9.5])
    r = el.add(Vertex([9.0, 9.0, 9.0], x), Vertex([9.0, 10.0, 9.0], y), data)
    same = [Or(And(x == a, y == b), And(x == b, y == a)) for a, b, _ in existing]
    hit = [i for i in range(m) if r is existing[i][2]]
    if hit:
        i = hit[0]
        ctx.prove("existing-edge-returned-only-for-the-same-pair", same[i])
        ctx.prove("it-is-the-first-such-edge", And([Not(same[j]) for j in range(i)]))
        ctx.prove("list-unchanged", len(el.edges) == m and all(el.edges[k] is existing[k][2] for k in range(m)))
    else:
        ctx.prove("new-edge-only-if-pair-is-new", And([Not(s) for s in same]))
        ctx.prove("new-edge-appended-last", len(el.edges) == m + 1 and el.edges[-1] is r and r.data is data
                  and all(el.edges[k] is existing[k][2] for k in range(m)))
    # invariant preserved
    pairs = [(e.vertex_1.index, e.vertex_2.index) for e in el.edges]
    ctx.prove("no-two-stored-edges-share-a-vertex-pair",
              And([Not(Or(And(ctx.eq(pairs[i][0], pairs[j][0]), ctx.eq(pairs[i][1], pairs[j][1])),
                          And(ctx.eq(pairs[i][0], pairs[j][1]), ctx.eq(pairs[i][1], pairs[j][0]))))
                   for i in range(len(pairs)) for j in range(i)]))


@proof("C07", "EdgeList.add/same-geometric-edge-twice", cases=[(k1, k2) for k1 in ("arc", "spline", "project", "line") for k2 in ("arc", "spline", "line")],
       functions=[EL + "add"], note="two operations define the same geometric edge (in opposite directions); a straight line is no definition: "
                                    "a curved edge given after it is kept")
def add_twice(ctx):
    k1, k2 = ctx.case
    v = [Vertex(ctx.vec("p"), 3), Vertex(ctx.vec("q"), 8)]
    ctx.assume(G.dot(v[0].position - v[1].position, v[0].position - v[1].position) > 0.01)
    el = EdgeList()
    d1 = E.Line() if k1 == "line" else (token(ctx, k1, 0) if k1 != "arc" else E.Arc(ctx.vec("m")))
    if k1 == "arc":
        # not collinear
        c = G.cross(v[0].position - d1.point.position, v[1].position - d1.point.position)
        ctx.assume(G.dot(c, c) > 0.01)
    d2 = E.Line() if k2 == "line" else (E.Arc(ctx.vec("m2")) if (k1, k2) == ("line", "arc") else token(ctx, k2, 1))
    if k1 == "line" and k2 == "arc":
        c2 = G.cross(v[1].position - d2.point.position, v[0].position - d2.point.position)
        ctx.assume(G.dot(c2, c2) > 0.01)     # the arc is a valid one (not collinear)
    e1 = el.add(v[0], v[1], d1)
    e2 = el.add(v[1], v[0], d2)
    if k1 == "line":
        if k2 == "line":
            ctx.prove("two-lines-write-nothing", len(el.edges) == 0)
        else:
            ctx.prove("curved-edge-after-a-line-is-kept", len(el.edges) == 1 and el.edges[0] is e2 and e2.data is d2)
            ctx.prove("and-found-for-that-vertex-pair", el.find(v[0], v[1]) is e2)
        return
    ctx.prove("second-definition-returns-the-first-edge", e2 is e1 and e1.data is d1)
    ctx.prove("written-once", len(el.edges) == 1 and el.edges[0] is e1)


# ------------------------------------------------------------------------------ validity filter
def _is_valid_spec(ctx, kind, p, q, third=None):
    if kind == "line":
        return False
    tol = ctx.const(TOL)
    d = p - q
    far = G.dot(d, d) >= tol * tol
    if third is None:
        return far
    c = G.cross(p - third, q - third)
    return And(far, G.dot(c, c) > tol * tol)


@proof("C07", "Edge.is_valid/filter", cases=["line", "spline", "project", "arc"],
       functions=["classy_blocks.items.edges.edge:Edge.is_valid", "classy_blocks.items.edges.arcs.arc_base:ArcEdgeBase.is_valid"],
       inlined=["functions.norm(model)"], scale=(1e-8, 10.0))
def is_valid(ctx):
    kind = ctx.case
    p, q = ctx.vec("p"), ctx.vec("q")
    third = None
    if kind == "line":
        data = E.Line()
    elif kind == "spline":
        data = E.Spline([ctx.vec("s0"), ctx.vec("s1")])
    elif kind == "project":
        data = E.Project("g")
    else:
        third = ctx.vec("m")
        data = E.Arc(third)
    edge = factory.create(Vertex(p, 0), Vertex(q, 1), data)
    got = edge.is_valid
    spec = _is_valid_spec(ctx, kind, p, q, third)
    if ctx.symbolic:
        ctx.prove("valid-iff-curved-nonzero-noncollinear", spec if got else Not(spec), got=bool(got))
    else:
        # floats: do not judge inside a factor-2 band around the tolerance
        d = p - q
        band = abs(G.dot(d, d) - TOL * TOL) < 0.75 * TOL * TOL
        if third is not None:
            c = G.cross(p - third, q - third)
            band = band or abs(G.dot(c, c) - TOL * TOL) < 0.75 * TOL * TOL
        ctx.prove("valid-iff-curved-nonzero-noncollinear", band or bool(spec) == bool(got), got=bool(got))


# ------------------------------------------------------------------------------ histories
HIST = ["given", "shift1", "shift2", "shift3", "shift-1", "invert", "invert+shift1", "reorient1", "reorient3", "shift1+invert"]


def _apply_history(face, hist, anchor_points):
    for step in hist.split("+"):
        if step == "given":
            pass
        elif step.startswith("shift"):
            face.shift(int(step[5:]))
        elif step == "invert":
            face.invert()
        elif step.startswith("reorient"):
            face.reorient(anchor_points[int(step[8:])])


@proof("C07", "face-history/edges-stay-on-their-geometric-edge", cases=[(h, w) for h in HIST for w in ("bottom", "top")],
       functions=["classy_blocks.construct.flat.face:Face.shift", "classy_blocks.construct.flat.face:Face.invert",
                  "classy_blocks.construct.flat.face:Face.reorient", EL + "add_from_operation", "classy_blocks.mesh:Mesh.assemble"],
       note="a face carrying 4 distinct curved edges is shifted / inverted / re-oriented before the operation is built; every "
            "written entry must still join the two points the user attached that edge to (spline points symbolic)")
def face_history(ctx):
    hist, which = ctx.case
    base = np.array(CUBE[:4]) if which == "bottom" else np.array(CUBE[4:])
    toks = [E.Spline([ctx.vec(f"s{i}a"), ctx.vec(f"s{i}b")]) for i in range(4)]
    face = Face(base, list(toks))
    anchors = {id(toks[i]): (tuple(base[i]), tuple(base[(i + 1) % 4])) for i in range(4)}
    user_first = {id(toks[i]): np.array(toks[i].curve.array.points[0]) for i in range(4)}
    _apply_history(face, hist, base)
    other = Face(np.array(CUBE[4:]) if which == "bottom" else np.array(CUBE[:4]))
    op = Operation(face, other) if which == "bottom" else Operation(other, face)
    mesh = Mesh()
    mesh.add(op)
    mesh.assemble()
    entries = [e for e in mesh.edge_list.edges if e.kind == "spline"]
    ctx.prove("four-entries", len(entries) == 4 and len({id(e.data) for e in entries}) == 4)
    for k, e in enumerate(sorted(entries, key=lambda e: [id(t) for t in toks].index(id(e.data)))):
        a, b = anchors[id(e.data)]
        ends = (tuple(float(x) for x in e.vertex_1.position), tuple(float(x) for x in e.vertex_2.position))
        ctx.prove(f"edge{k}/joins-the-points-it-was-attached-to", set(ends) == {a, b}, ends=ends)
        # point order follows the entry's vertex order: the user's first point is next to anchor a
        first_written = e.point_array[0]
        expect_first = user_first[id(e.data)] if ends[0] == a else np.array(e.data.curve.array.points[-1])
        if "invert" not in hist:
            ctx.prove(f"edge{k}/point-order-follows-vertex-order", ctx.eq(first_written, expect_first))


@proof("C07", "assembly-history/each-edge-written-once", cases=["assemble", "assemble-clear-assemble", "assemble-backport", "assemble-backport-backport"],
       functions=[EL + "add", EL + "find", EL + "clear", "classy_blocks.mesh:Mesh.assemble", "classy_blocks.mesh:Mesh.clear",
                  "classy_blocks.mesh:Mesh.backport"])
def assembly_history(ctx):
    op, toks = op_with_tokens(ctx, "spline")
    op2 = Operation(Face(np.array(CUBE[4:])), Face(np.array(CUBE[4:]) + np.array([0.0, 0.0, 1.0])))
    op2.bottom_face.add_edge(0, E.Arc([0.5, -0.2, 1.0]))   # same geometric edge as op's top edge 4-5: defined twice
    mesh = Mesh()
    mesh.add(op)
    mesh.add(op2)
    steps = ctx.case.split("-")
    for st in steps:
        getattr(mesh, st)()
    ents = mesh.edge_list.edges
    ctx.prove("thirteen-slots-twelve-entries", len(ents) == 12, n=len(ents))
    ctx.prove("each-user-edge-exactly-once", sorted(id(e.data) for e in ents) == sorted(id(t) for t in toks))
    pairs = [frozenset((e.vertex_1.index, e.vertex_2.index)) for e in ents]
    ctx.prove("no-vertex-pair-twice", len(set(pairs)) == len(pairs))
    ctx.prove("entries-join-current-vertices", all(e.vertex_1 is mesh.vertices[e.vertex_1.index] and e.vertex_2 is mesh.vertices[e.vertex_2.index] for e in ents))
    ctx.prove("block-wires-hold-the-listed-edges",
              all(any(w.edge is e for w in mesh.blocks[0].wire_list) for e in ents))


@proof("C07", "OnCurveEdge/parameter-range-follows-vertex-order", cases=[(i, j) for i in range(4) for j in range(4) if i != j],
       functions=["classy_blocks.items.edges.curve:OnCurveEdge.param_start", "classy_blocks.items.edges.curve:OnCurveEdge.param_end",
                  "classy_blocks.items.edges.curve:OnCurveEdge.point_array", "classy_blocks.items.edges.curve:OnCurveEdge.length",
                  "classy_blocks.construct.curves.discrete:DiscreteCurve.discretize", "classy_blocks.construct.curves.curve:CurveBase.get_closest_param"],
       note="curve = discrete curve through 4 symbolic points; the two vertices sit on curve points i and j (either order)")
def oncurve_direction(ctx):
    i, j = ctx.case
    pts = ctx.mat("c", 4)
    for a in range(4):
        for b in range(a):
            ctx.assume(G.dist2(pts[a], pts[b]) > 0.01)
    curve = DiscreteCurve(pts)
    data = E.OnCurve(curve, n_points=5)
    edge = factory.create(Vertex(pts[i], 0), Vertex(pts[j], 1), data)
    ctx.prove("parameters-of-the-two-vertices", ctx.eq(edge.param_start, i) and ctx.eq(edge.param_end, j))
    inner = list(edge.point_array)
    step = 1 if j > i else -1
    expect = [pts[k] for k in range(i + step, j, step)]
    ctx.prove("points-run-from-vertex-1-to-vertex-2", len(inner) == len(expect) and And([ctx.eq(a, b) for a, b in zip(inner, expect)]))
    chain = [pts[k] for k in range(i, j + step, step)]
    length = 0
    for a, b in zip(chain[:-1], chain[1:]):
        length = length + G.norm(b - a)
    ctx.prove("length-is-the-curve-length-between-the-vertices", ctx.eq(edge.length, length))
    ctx.prove("entry-names-vertex-1-then-vertex-2", edge.description.startswith("\tspline 0 1 ("))


@proof("C07", "project-labels/one-list-of-surfaces-given-to-several-edges", cases=["wall", "bank"], level="S", samples=1,
       functions=["classy_blocks.construct.edges:Project.convert_label", "classy_blocks.construct.edges:Project.add_label",
                  "classy_blocks.construct.operations.operation:Operation.project_edge", EL + "add_from_operation"],
       note="executed contract: one caller-owned list of surface names is used to project two edges, then one of them gets a second surface; "
            "every projected edge is listed with exactly the surfaces given for it, and the caller's list stays as it was (round 5)")
def project_labels_shared(ctx):
    import classy_blocks as cb

    surfaces = ["terrain"]
    added = ctx.case     # sorts after / before the first name
    given = list(surfaces)
    box = cb.Box([0.0, 0.0, 0.0], [1.0, 1.0, 1.0])
    box.project_edge(0, 1, surfaces)
    box.project_edge(1, 2, surfaces)
    box.project_edge(4, 5, list(surfaces))
    box.project_edge(0, 1, added)
    mesh = Mesh()
    mesh.add(box)
    mesh.assemble()
    got = {}
    for e in mesh.edge_list.edges:
        if e.kind == "project":
            key = frozenset((tuple(float(x) for x in e.vertex_1.position), tuple(float(x) for x in e.vertex_2.position)))
            got[key] = sorted(e.data.label)
    want = {
        frozenset(((0.0, 0.0, 0.0), (1.0, 0.0, 0.0))): sorted(given + [added]),
        frozenset(((1.0, 0.0, 0.0), (1.0, 1.0, 0.0))): sorted(given),
        frozenset(((0.0, 0.0, 1.0), (1.0, 0.0, 1.0))): sorted(given),
    }
    ctx.prove("each-projected-edge-listed-with-the-surfaces-given-for-it", got == want, got=str(got)[:300])
    ctx.prove("the-callers-list-is-not-altered", surfaces == given)


@proof("C07", "assembly-history/edges-redefined-on-the-faces-between-assemblies", cases=["assemble-clear", "edges-read-only"], level="S", samples=1,
       functions=["classy_blocks.construct.operations.operation:Operation.edges", "classy_blocks.construct.flat.face:Face.add_edge",
                  "classy_blocks.construct.flat.face:Face.remove_edges", EL + "add_from_operation", "classy_blocks.mesh:Mesh.clear"],
       note="executed contract: the mesh is assembled once (or the operation's edges are just looked at), cleared, the user removes an edge and "
            "defines two others through the faces, and the mesh is assembled again: exactly the edges defined now are listed, once each, with "
            "the data given (round 5: an operation remembering its frame of edges)")
def edges_redefined(ctx):
    import classy_blocks as cb

    bottom = cb.Face([[0, 0, 0], [1, 0, 0], [1, 1, 0], [0, 1, 0]], [cb.Arc([0.5, -0.2, 0]), None, None, None])
    top = cb.Face([[0, 0, 1], [1, 0, 1], [1, 1, 1], [0, 1, 1]])
    loft = cb.Loft(bottom, top)
    mesh = Mesh()
    mesh.add(loft)
    if ctx.case == "assemble-clear":
        mesh.assemble()
        ctx.prove("first-assembly-lists-the-arc", [e.kind for e in mesh.edge_list.edges] == ["arc"])
        mesh.clear()
    else:
        _ = loft.edges
    spline, arc = cb.Spline([[1.1, 0.25, 1], [1.15, 0.5, 1], [1.1, 0.75, 1]]), cb.Arc([-0.2, 0.5, 1])
    loft.bottom_face.remove_edges()
    loft.top_face.add_edge(1, spline)
    loft.top_face.add_edge(3, arc)
    mesh.assemble()
    ents = mesh.edge_list.edges
    ctx.prove("exactly-the-edges-defined-now", sorted(e.kind for e in ents) == ["arc", "spline"], kinds=[e.kind for e in ents])
    ends = lambda e: {tuple(float(x) for x in e.vertex_1.position), tuple(float(x) for x in e.vertex_2.position)}
    for e in ents:
        if e.kind == "spline":
            ctx.prove("spline-on-the-edge-it-was-given-for-with-its-data", e.data is spline and ends(e) == {(1.0, 0.0, 1.0), (1.0, 1.0, 1.0)})
        if e.kind == "arc":
            ctx.prove("arc-on-the-edge-it-was-given-for-with-its-data", e.data is arc and ends(e) == {(0.0, 1.0, 1.0), (0.0, 0.0, 1.0)})
