"""C17 — clamps stay on their manifold and links keep their relation."""
import math

import numpy as np

from classy_blocks.optimize import links as L
from classy_blocks.optimize.clamps import clamp as clamp_mod
from classy_blocks.optimize.clamps import surface as surface_mod
from classy_blocks.optimize.clamps.clamp import ClampBase
from classy_blocks.optimize.clamps.curve import CurveClamp, LineClamp, RadialClamp
from classy_blocks.optimize.clamps.free import FreeClamp
from classy_blocks.optimize.clamps.surface import ParametricSurfaceClamp, PlaneClamp
from classy_blocks.util import functions as f
from contracts.spec import geom as G
from pyvc.harness import proof
from pyvc.sym import And, Not, Or

CL = "classy_blocks.optimize.clamps."
LK = "classy_blocks.optimize.links:"


class _Res:
    def __init__(self, x):
        self.x = x


def havoc_minimize(ctx, record):
    """scipy.optimize.minimize as a havoc-ing external (A2): records what it was given and returns
    arbitrary parameters (inside the bounds it was given)."""

    def minimize(fun, x0, bounds=None, tol=None, **kw):
        n = len(x0)
        x = [ctx.real(f"argmin{i}") for i in range(n)]
        if bounds is not None:
            for i, b in enumerate(bounds):
                if b is not None and b[0] is not None:
                    ctx.assume(x[i] >= b[0])
                if b is not None and b[1] is not None:
                    ctx.assume(x[i] <= b[1])
        record.update(fun=fun, x0=list(x0), bounds=bounds, tol=tol)
        if ctx.symbolic:
            # probe the objective now (it reads the clamp's creation position at call time)
            q = [ctx.real(f"probe{i}") for i in range(n)]
            record["probe"], record["objective_at_probe"] = q, fun(q)
        return _Res(x)

    return minimize


def make(ctx, ctor, record=None):
    """Construct a clamp with scipy's minimiser stubbed in symbolic mode."""
    record = {} if record is None else record
    with ctx.stub(clamp_mod.scipy.optimize, "minimize", havoc_minimize(ctx, record)):
        return ctor()


def objective_clause(ctx, clamp, record, nparams):
    """get_params hands minimize the distance between the creation position and function(params)."""
    if not ctx.symbolic:
        return
    ctx.prove("closest-point-search-performed", "probe" in record)
    if "probe" not in record:
        return
    q, got = record["probe"], record["objective_at_probe"]
    want = G.norm(record["position"] - clamp.function(q))
    ctx.prove("objective-is-distance-to-creation-position", ctx.eq(got * got, want * want))
    ctx.prove("initial-guess-and-bounds-passed", record["x0"] == list(clamp.initial_guess) and record["bounds"] is clamp.bounds)


def _given(*arrays):
    """Copies to hand to a constructor ..."""
    return [np.array(a, dtype=a.dtype) for a in arrays]


def _scribble(arrays):
    """... and what happens to them afterwards: a clamp is created with a vertex' position array, which optimisation
    then moves in place, and with arrays (line points, centre, normal) the caller goes on using; the clamp's
    manifold is defined by the values it was created with (round 5: every array, not only the position)"""
    for i, a in enumerate(arrays):
        for k in range(len(a)):
            a[k] = a[k] + 7 + 3 * i * (k + 1)


@proof("C17", "LineClamp", functions=[CL + "curve:LineClamp.__init__", CL + "clamp:ClampBase.__init__", CL + "clamp:ClampBase.get_params",
                                     CL + "clamp:ClampBase.update_params"],
       uses=["scipy.optimize.minimize (havoc-ing external, A2)"], samples=15)
def line_clamp(ctx):
    pos, p1, p2 = ctx.vec("x"), ctx.vec("a"), ctx.vec("b")
    ctx.assume(G.dist2(p1, p2) > 0.01)
    rec = {"position": pos}
    mine = _given(pos, p1, p2)
    clamp = make(ctx, lambda: LineClamp(*mine), rec)
    _scribble(mine)
    d = p2 - p1

    def on_line(p):
        return ctx.eq(G.cross(p - p1, d), np.zeros(3), tol=1e-6)

    ctx.prove("position-on-the-line", on_line(clamp.position))
    ctx.prove("position-is-function-of-params", ctx.eq(clamp.position, clamp.function(clamp.params)))
    t = ctx.real("t")
    fn, bounds = clamp.function, clamp.bounds
    clamp.update_params([t])
    ctx.prove("after-update/position-on-the-line", on_line(clamp.position))
    # parameter is the distance from point 1 along the direction to point 2
    ctx.prove("after-update/parameter-is-signed-distance", ctx.eq(G.dot(clamp.position - p1, d) ** 2, t * t * G.dot(d, d), tol=1e-6))
    ctx.prove("after-update/frame", clamp.params[0] is t and clamp.function is fn and clamp.bounds is bounds)
    L2 = G.dot(d, d)
    ctx.prove("default-bounds-span-the-segment", ctx.eq(bounds[0][0], 0) and ctx.eq(bounds[0][1] * bounds[0][1], L2))
    objective_clause(ctx, clamp, rec, 1)


@proof("C17", "RadialClamp", functions=[CL + "curve:RadialClamp.__init__", CL + "clamp:ClampBase.update_params",
                                       "classy_blocks.util.functions:rotate", "classy_blocks.util.functions:point_to_line_distance"],
       uses=["scipy.optimize.minimize (havoc-ing external, A2)", "functions.rotation_matrix (Rodrigues model, A2)"], samples=15, timeout=120)
def radial_clamp(ctx):
    pos, c, n = ctx.vec("x"), ctx.vec("c"), ctx.vec("n")
    ctx.assume(G.norm2(n) > 0.01)
    ctx.assume(G.norm2(G.cross(pos - c, n)) > 0.01)
    rec = {"position": pos}
    mine = _given(pos, c, n)
    clamp = make(ctx, lambda: RadialClamp(*mine), rec)
    _scribble(mine)
    t = ctx.real("t")
    clamp.update_params([t])
    p = clamp.position
    n2 = G.norm2(n)
    # same height along the axis and same distance from the axis as the creation point (non-unit n)
    ctx.prove("same-height-about-the-axis", ctx.eq(G.dot(p - c, n), G.dot(pos - c, n), tol=1e-6))
    r2 = lambda q: G.norm2(q - c) - G.dot(q - c, n) ** 2 / n2
    ctx.prove("same-radius-about-the-axis", ctx.eq(r2(p), r2(pos), tol=1e-6))
    if not ctx.symbolic:
        # parameter is arc length: turning angle = t / radius (radius = distance of the creation point from the axis)
        r_true = math.sqrt(float(r2(pos)))
        nu = np.asarray(n, dtype=float) / math.sqrt(float(n2))
        want = c + G.rot(nu, math.cos(t / r_true), math.sin(t / r_true), pos - c)
        ctx.prove("parameter-is-the-arc-length-travelled", ctx.eq(p, want, tol=1e-6 * (1 + r_true)), t=t, radius=r_true)
        clamp.update_params([0.0])
        ctx.prove("zero-parameter-is-the-creation-point", ctx.eq(clamp.position, pos, tol=1e-6))


@proof("C17", "PlaneClamp", functions=[CL + "surface:PlaneClamp.__init__", CL + "clamp:ClampBase.update_params"],
       uses=["scipy.optimize.minimize (havoc-ing external, A2)", "np.random.random (any value in [0,1), A2)"], samples=15, timeout=120)
def plane_clamp(ctx):
    pos, pt, n = ctx.vec("x"), ctx.vec("p"), ctx.vec("n")
    ctx.assume(G.norm2(n) > 0.01)
    rnd = np.array([ctx.real(f"rnd{i}", lo=0, hi=1) for i in range(3)], dtype=object if ctx.symbolic else float)
    # the random direction must not be parallel to the normal (probability 0; the code assumes it)
    nu = G.unit(n) if ctx.symbolic else n / np.linalg.norm(n)
    ctx.assume(G.norm2(G.cross(nu + rnd, n)) > 0.0001)
    rec = {"position": pos}
    with ctx.stub(surface_mod.np.random, "random", lambda k: rnd, only_symbolic=False):
        mine = _given(pos, pt, n)
        clamp = make(ctx, lambda: PlaneClamp(*mine), rec)
    _scribble(mine)
    u, v = ctx.real("u"), ctx.real("v")
    clamp.update_params([u, v])
    ctx.prove("position-in-the-plane", ctx.eq(G.dot(clamp.position - pt, n), 0, tol=1e-6))


@proof("C17", "Curve-Surface-Free-clamps", cases=["curve", "surface", "free"],
       functions=[CL + "curve:CurveClamp.__init__", CL + "surface:ParametricSurfaceClamp", CL + "free:FreeClamp.__init__",
                  CL + "clamp:ClampBase.update_params"], uses=["scipy.optimize.minimize (havoc-ing external, A2)"], samples=10)
def function_clamps(ctx):
    pos = ctx.vec("x")
    kind = ctx.case

    def surf(p):
        return np.array([p[0], p[1], p[0] * p[0] - p[1] * p[0] + 2 * p[1]], dtype=object if ctx.symbolic else float)

    class Curve:
        bounds = (0.0, 4.0)

        def get_point(self, t):
            return np.array([t, t * t, 1 - t], dtype=object if ctx.symbolic else float)

        def get_closest_param(self, p):
            return 1.0

    rec = {"position": pos}
    if kind == "curve":
        curve = Curve()
        clamp = make(ctx, lambda: CurveClamp(pos, curve), rec)
        t = ctx.real("t", lo=0, hi=4)
        clamp.update_params([t])
        ctx.prove("position-is-the-curve-point", ctx.eq(clamp.position, curve.get_point(t)))
        ctx.prove("bounds-are-the-curve-bounds", clamp.bounds == [[0.0, 4.0]])
        ctx.prove("initial-guess-is-closest-param", list(clamp.initial_guess) == [1.0])
        objective_clause(ctx, clamp, rec, 1)
    elif kind == "surface":
        clamp = make(ctx, lambda: ParametricSurfaceClamp(pos, surf, [[-5.0, 5.0], [-5.0, 5.0]]), rec)
        u, v = ctx.real("u", lo=-5, hi=5), ctx.real("v", lo=-5, hi=5)
        clamp.update_params([u, v])
        ctx.prove("position-is-the-surface-point", ctx.eq(clamp.position, surf([u, v])))
        objective_clause(ctx, clamp, rec, 2)
    else:
        clamp = make(ctx, lambda: FreeClamp(pos), rec)
        q = ctx.vec("q")
        clamp.update_params(q)
        ctx.prove("position-is-the-parameters", ctx.eq(clamp.position, q))
        ctx.prove("initial-guess-is-creation-position", ctx.eq(np.array(rec.get("x0", pos)), pos))


@proof("C17", "bounded/fresh-clamp-reports-creation-point", cases=["line", "radial", "plane", "free", "curve"], level="B", samples=25,
       functions=[CL + "clamp:ClampBase.get_params", CL + "curve:CurveClamp.__init__", "classy_blocks.construct.curves.curve:CurveBase.get_closest_param"],
       note="bounded stand-in only: relies on scipy.optimize.minimize finding the arg-min (A2); tolerance 1e-4 of the length scale")
def fresh_clamp(ctx):
    rng = ctx.rng
    v = lambda s=3.0: np.array([rng.uniform(-s, s) for _ in range(3)])
    kind = ctx.case
    if kind == "line":
        p1, p2 = v(), v()
        ctx.assume(np.linalg.norm(p2 - p1) > 0.5)
        on = p1 + rng.uniform(0.05, 0.95) * (p2 - p1)
        clamp = LineClamp(on, p1, p2)
        ctx.prove("on-manifold-creation-point-is-kept", np.linalg.norm(clamp.position - on) < 1e-4 * (1 + np.linalg.norm(p2 - p1)), d=clamp.position - on)
        off = on + np.cross(p2 - p1, v())* 0.2
        clamp = LineClamp(off, p1, p2)
        # closest point on the line
        t = np.dot(off - p1, p2 - p1) / np.dot(p2 - p1, p2 - p1)
        foot = p1 + min(max(t, 0.0), 1.0) * (p2 - p1)
        ctx.prove("off-manifold-creation-point-goes-to-the-closest-point", np.linalg.norm(clamp.position - foot) < 1e-3 * (1 + np.linalg.norm(p2 - p1)))
    elif kind == "radial":
        c, n, p = v(), v(1.0), v()
        ctx.assume(np.linalg.norm(n) > 0.3 and np.linalg.norm(np.cross(p - c, n)) > 0.3)
        clamp = RadialClamp(p, c, n)
        ctx.prove("on-manifold-creation-point-is-kept", np.linalg.norm(clamp.position - p) < 1e-4 * (1 + np.linalg.norm(p - c)))
    elif kind == "plane":
        pt, n = v(), v(1.0)
        ctx.assume(np.linalg.norm(n) > 0.3)
        w = v()
        on = pt + w - n * np.dot(w, n) / np.dot(n, n)
        clamp = PlaneClamp(on, pt, n)
        ctx.prove("on-manifold-creation-point-is-kept", np.linalg.norm(clamp.position - on) < 1e-4 * (1 + np.linalg.norm(w)))
    elif kind == "curve":
        # a multi-turn helix whose parameter range does not start at 0 and that passes close to itself
        from classy_blocks.construct.curves.analytic import AnalyticCurve

        rad, pitch = rng.uniform(0.8, 2), rng.uniform(0.3, 0.6)
        lo = rng.choice([-9.0, -4.0, 3.0, 0.0])
        hi = lo + rng.uniform(9, 14)
        c0 = v()
        curve = AnalyticCurve(lambda t: c0 + np.array([rad * math.cos(t), rad * math.sin(t), pitch * t]), (lo, hi))
        t0 = rng.uniform(lo + 0.05 * (hi - lo), hi - 0.05 * (hi - lo))
        on = np.asarray(curve.get_point(t0), dtype=float)
        clamp = CurveClamp(on, curve)
        ctx.prove("on-manifold-creation-point-is-kept", np.linalg.norm(clamp.position - on) < 1e-3 * rad, d=float(np.linalg.norm(clamp.position - on)), t0=t0, bounds=(lo, hi))
        ctx.prove("parameter-inside-the-curves-bounds", lo - 1e-9 <= clamp.params[0] <= hi + 1e-9)
    else:
        p = v()
        clamp = FreeClamp(p)
        ctx.prove("on-manifold-creation-point-is-kept", np.linalg.norm(clamp.position - p) < 1e-5)


# ------------------------------------------------------------------------------ links
def snapshot(a):
    return (a, np.array(a, dtype=object).copy())


def unchanged(ctx, snap):
    obj, old = snap
    return And([ctx.identical(x, y) for x, y in zip(np.asarray(obj, dtype=object).flat, old.flat)])


@proof("C17", "TranslationLink", functions=[LK + "TranslationLink.__init__", LK + "TranslationLink.transform", LK + "LinkBase.update"])
def translation_link(ctx):
    l0, f0, l1 = ctx.vec("l"), ctx.vec("f"), ctx.vec("m")
    link = L.TranslationLink(l0, f0)
    lead = np.array(l1)
    link.leader = lead
    snap = snapshot(lead)
    link.update()
    ctx.prove("follower-is-leader-plus-original-offset", ctx.eq(link.follower, l1 + (f0 - l0)))
    ctx.prove("leader-not-altered", link.leader is lead and unchanged(ctx, snap))
    # a link declared with whole-number coordinates (lists of ints), leader moved to any real position
    link = L.TranslationLink([0, 0, 0], [1, -2, 3])
    link.leader = np.array(l1)
    _, exc = ctx.call(link.update)
    ctx.prove("declared-with-integers/follower-is-leader-plus-original-offset",
              exc is None and ctx.eq(np.asarray(link.follower, dtype=object if ctx.symbolic else float), l1 + np.array([1, -2, 3])))


@proof("C17", "SymmetryLink", functions=[LK + "SymmetryLink.__init__", LK + "SymmetryLink.transform", LK + "LinkBase.update",
                                        "classy_blocks.util.functions:mirror", "classy_blocks.util.functions:mirror_matrix"])
def symmetry_link(ctx):
    l0, f0, l1, n, o = ctx.vec("l"), ctx.vec("f"), ctx.vec("m"), ctx.vec("n"), ctx.vec("o")
    ctx.assume(G.norm2(n) > 0.01)
    link = L.SymmetryLink(l0, f0, n, o)
    ctx.prove("construction-does-not-alter-the-leader", ctx.eq(link.leader, l0))
    lead = np.array(l1)
    link.leader = lead
    snap = snapshot(lead)
    link.update()
    ctx.prove("follower-is-the-mirror-image", ctx.eq(link.follower, G.reflect(l1, n, o), tol=1e-6))
    ctx.prove("leader-not-altered", link.leader is lead and unchanged(ctx, snap))
    ctx.prove("plane-not-altered", ctx.eq(link.origin, o) and ctx.eq(link.normal, n))


@proof("C17", "functions.mirror/pure", functions=["classy_blocks.util.functions:mirror"])
def mirror_pure(ctx):
    p, n, o = ctx.vec("p"), ctx.vec("n"), ctx.vec("o")
    ctx.assume(G.norm2(n) > 0.01)
    sp, sn, so = snapshot(p), snapshot(n), snapshot(o)
    r = f.mirror(p, n, o)
    ctx.prove("returns-the-reflection", ctx.eq(r, G.reflect(sp[1], sn[1], so[1]), tol=1e-6))
    ctx.prove("arguments-not-modified", And(unchanged(ctx, sp), unchanged(ctx, sn), unchanged(ctx, so)))


@proof("C17", "RotationLink", cases=["turn-left", "turn-right"],
       functions=[LK + "RotationLink.__init__", LK + "RotationLink.transform", LK + "RotationLink._get_radius", LK + "RotationLink._get_height",
                  "classy_blocks.util.functions:angle_between", "classy_blocks.util.functions:rotate"],
       uses=["functions.rotation_matrix (Rodrigues model, A2)"], samples=15, timeout=200,
       note="leader turned about the axis by phi with sin(phi) >= 0 (turn-left) / < 0 (turn-right); |phi| < pi")
def rotation_link(ctx):
    l0, f0, a, o = ctx.vec("l"), ctx.vec("f"), ctx.vec("a"), ctx.vec("o")
    ctx.assume(G.norm2(a) > 0.01)
    ctx.assume(G.norm2(G.cross(l0 - o, a)) > 0.01)
    phi = ctx.real("phi", lo=-3.1, hi=3.1)
    if ctx.symbolic:
        c, s = phi.cos(), phi.sin()
    else:
        c, s = math.cos(phi), math.sin(phi)
    ctx.assume(s >= 0 if ctx.case == "turn-left" else s < 0)
    au = G.unit(a)
    l1 = o + G.rot(au, c, s, l0 - o)
    link, exc = ctx.call(L.RotationLink, l0, f0, a, o)
    if exc is not None:
        return  # leader on the axis: rejected by the constructor (its contract is C20's)
    # --- lemmas about the quantities RotationLink.transform computes (same library calls, so the
    # terms are the ones the code builds): cosine and sine of the turning angle
    r0 = link.orig_leader_radius
    r1 = link._get_radius(l1)
    x = G.dot(f.unit_vector(r0), f.unit_vector(r1)) if not ctx.symbolic else np.dot(f.unit_vector(r0), f.unit_vector(r1))
    ctx.lemma("lemma/cosine-of-the-turn", ctx.eq(x, c, tol=1e-6))
    y = np.dot(G.cross(r0, r1), link.axis)
    ctx.lemma("lemma/sine-of-the-turn", ctx.eq(y, np.dot(r0, r0) * s, tol=1e-6))
    if ctx.symbolic:
        root = (1 - x * x).sqrt()
        ctx.lemma("lemma/sin-of-arccos", ctx.eq(root, s if ctx.case == "turn-left" else -s))
    lead = np.array(l1)
    link.leader = lead
    snap = snapshot(lead)
    link.update()
    ctx.prove("follower-is-original-follower-turned-by-the-same-angle",
              ctx.eq(link.follower, o + G.rot(au, c, s, f0 - o), tol=1e-5))
    ctx.prove("leader-not-altered", link.leader is lead and unchanged(ctx, snap))
