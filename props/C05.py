"""C05 — one vertex per distinct point; duplicates only across merged patches."""
import itertools

import numpy as np

from classy_blocks.construct.operations.box import Box
from classy_blocks.construct.point import Point
from classy_blocks.lists.vertex_list import VertexList
from classy_blocks.mesh import Mesh
from classy_blocks.util.constants import TOL
from contracts.spec import geom as G
from contracts.spec import hexa
from pyvc.harness import proof
from pyvc.sym import And, Not, Or

VL = "classy_blocks.lists.vertex_list:VertexList."


def slave_key(op, corner, slaves):
    """Slave patches of the sides that contain the corner (blockMesh convention stated independently)."""
    names = op.patch_names
    return frozenset(names[s] for s in hexa.sides_at_corner(corner) if s in names and names[s] in slaves)


def check_connectivity(ctx, mesh, ops, slaves, tol):
    blocks = mesh.blocks
    ctx.prove("vertex-numbers-dense-and-equal-list-position", [v.index for v in mesh.vertices] == list(range(len(mesh.vertices))))
    corners = []
    for op, b in zip(ops, blocks):
        pts = np.asarray(op.point_array, dtype=float)
        for c in range(8):
            corners.append((op, c, pts[c], b.vertices[c]))
    groups = {}
    for i, (op, c, p, v) in enumerate(corners):
        ctx.prove("vertex-sits-at-its-corner", float(np.linalg.norm(np.asarray(v.position, dtype=float) - p)) < tol)
        for j in range(i):
            op2, c2, p2, v2 = corners[j]
            near = float(np.linalg.norm(p - p2)) < tol
            same_key = slave_key(op, c, slaves) == slave_key(op2, c2, slaves)
            should_share = near and same_key
            if (v is v2) != should_share:
                ctx.prove("corners-share-a-vertex-iff-same-point-and-same-slave-patches", False,
                          a=(ops.index(op), c), b=(ops.index(op2), c2), near=near, same_key=same_key, shared=v is v2)
                return
    ctx.prove("corners-share-a-vertex-iff-same-point-and-same-slave-patches", True)
    # master-side and slave-side corners never share
    for (op, c, p, v) in corners:
        if slave_key(op, c, slaves):
            ctx.prove("slave-copy-not-used-by-master-side", all(not (v is v2) for (o2, c2, p2, v2) in corners if not slave_key(o2, c2, slaves)))


# layouts: name -> (cells, {box: {side: patch}}, merges [(master, slave)])
LAYOUTS = {
    "two-touching": ([(0, 0, 0), (1, 0, 0)], {}, []),
    "L-three": ([(0, 0, 0), (1, 0, 0), (1, 1, 0)], {}, []),
    "two-by-two": ([(0, 0, 0), (1, 0, 0), (0, 1, 0), (1, 1, 0)], {}, []),
    "edge-and-corner-contacts": ([(0, 0, 0), (1, 1, 0), (2, 2, 1)], {}, []),
    "stack-merged-interface": ([(0, 0, 0), (1, 0, 0), (0, 0, 1), (1, 0, 1)],
                               {0: {"top": "m_low"}, 1: {"top": "m_low"}, 2: {"bottom": "s_up"}, 3: {"bottom": "s_up"}}, [("m_low", "s_up")]),
    "two-pairs-meeting-at-an-edge": ([(0, 0, 0), (0, 0, 1), (1, 0, 1), (1, 0, 0)],
                                     {0: {"top": "zm", "right": "am"}, 1: {"bottom": "zeta_s"}, 2: {"bottom": "zeta_s", "left": "x"}, 3: {"left": "alpha_s", "top": "zm2"}},
                                     [("zm", "zeta_s"), ("am", "alpha_s")]),
    "two-slave-patches-on-one-block-pair": ([(0, 0, 0), (1, 0, 0), (0, 0, 1), (1, 0, 1)],
                                            {2: {"bottom": "zeta_s", "front": "alpha_s"}, 3: {"bottom": "zeta_s", "front": "alpha_s"}, 0: {"top": "mz"}, 1: {"top": "mz"}},
                                            [("mz", "zeta_s"), ("wall_m", "alpha_s")]),
    # the middle block's patch is the slave of one pair and the master of the next
    "chain-of-merged-pairs": ([(0, 0, 0), (1, 0, 0), (2, 0, 0)], {0: {"right": "a"}, 1: {"left": "mid", "right": "mid"}, 2: {"left": "c"}},
                              [("a", "mid"), ("mid", "c")]),
    "chain-of-merged-pairs-declared-backwards": ([(0, 0, 0), (1, 0, 0), (2, 0, 0)], {0: {"right": "a"}, 1: {"left": "mid", "right": "mid"}, 2: {"left": "c"}},
                                                 [("mid", "c"), ("a", "mid")]),
}


def build(layout, order, origin=(0.0, 0.0, 0.0), size=1.0):
    cells, patches, merges = LAYOUTS[layout]
    ops = []
    for c in cells:
        lo = np.array(origin) + np.array(c, dtype=float) * size
        ops.append(Box(lo, lo + size))
    for bi, d in patches.items():
        for side, name in d.items():
            ops[bi].set_patch(side, name)
    mesh = Mesh()
    for m_, s_ in merges:
        mesh.merge_patches(m_, s_)
    ordered = [ops[i] for i in order]
    for op in ordered:
        mesh.add(op)
    mesh.assemble(skip_edges=True)
    return mesh, ordered, {s_ for _, s_ in merges}


def orders(n):
    return list(itertools.permutations(range(n)))


CASES = [(name, "".join(map(str, o))) for name, (cells, _, _) in LAYOUTS.items() for o in orders(len(cells))]


@proof("C05", "assembly/connectivity", cases=CASES, level="S", samples=1,
       functions=[VL + "add", VL + "find_unique", VL + "find_duplicated", "classy_blocks.mesh:Mesh._add_vertices",
                  "classy_blocks.construct.operations.operation:Operation.get_patches_at_corner", "classy_blocks.lists.patch_list:PatchList.slave_patches",
                  "classy_blocks.items.vertex:Vertex.from_point"],
       note="layout-bounded: 9 layouts of 2-4 lattice boxes (face, edge, corner contacts; one and two merged pairs, two slave patches "
            "on one corner, patch names in non-alphabetical order, a patch that is slave of one pair and master of the next) x every insertion order")
def connectivity(ctx):
    layout, order = ctx.case
    mesh, ops, slaves = build(layout, [int(c) for c in order])
    check_connectivity(ctx, mesh, ops, slaves, TOL)
    expected = {"two-touching": 12, "L-three": 16, "two-by-two": 18, "edge-and-corner-contacts": 8 + 6 + 7}
    if layout in expected:
        ctx.prove("expected-vertex-count", len(mesh.vertices) == expected[layout], n=len(mesh.vertices))


@proof("C05", "bounded/connectivity-far-from-origin", level="B", samples=12, cases=list(LAYOUTS),
       functions=[VL + "add"], note="bounded stand-in: the same layouts placed 1e2..1e4 from the origin with box sizes 1e-3..1, random insertion order")
def connectivity_far(ctx):
    rng = ctx.rng
    layout = ctx.case
    n = len(LAYOUTS[layout][0])
    order = list(range(n))
    rng.shuffle(order)
    origin = [rng.choice((-1, 1)) * 10 ** rng.uniform(2, 4) for _ in range(3)]
    size = 10 ** rng.uniform(-3, 0)
    mesh, ops, slaves = build(layout, order, origin, size)
    check_connectivity(ctx, mesh, ops, slaves, TOL * 50)


# ------------------------------------------------------------------------------ VertexList.add contract, symbolic positions
@proof("C05", "VertexList.add/contract", cases=[(m, near, keyed) for m in (0, 1, 2) for near in range(0, 3) if near <= m for keyed in ("plain", "slave")],
       level="S", functions=[VL + "add", VL + "find_unique", VL + "find_duplicated"], timeout=60,
       note="shape bound: list of m = 0..2 existing vertices with symbolic positions; the new point is within TOL/2 of existing "
            "vertex number `near` (0 = of none, then farther than 2*TOL from all); well-separated input as the property assumes")
def add_contract(ctx):
    m, near, keyed = ctx.case
    vl = VertexList()
    tol = ctx.const(TOL)
    pts = [ctx.vec(f"v{i}") for i in range(m)]
    for i in range(m):
        for j in range(i):
            ctx.assume(G.dist2(pts[i], pts[j]) > 4 * tol * tol)
    patches = ["s1"] if keyed == "slave" else []
    existing = [vl.add(Point(p), list(patches)) for p in pts]
    ctx.prove("distinct-points-get-distinct-vertices", len(vl.vertices) == m and [v.index for v in vl.vertices] == list(range(m)))
    def close_to(rng):  # bounded tier: a point within TOL/2 of vertex `near` (uniform draws never are)
        d = np.array([rng.gauss(0, 1) for _ in range(3)])
        return np.asarray(pts[near - 1], dtype=float) + d / np.linalg.norm(d) * rng.uniform(0, 0.49 * TOL)

    x = ctx.vec_from("x", close_to) if near >= 1 else ctx.vec("x")
    for i in range(m):
        if near == i + 1:
            ctx.assume(G.dist2(x, pts[i]) < tol * tol / 4)
        else:
            ctx.assume(G.dist2(x, pts[i]) > 4 * tol * tol)
    pt = Point(x)
    pt.project("geo")
    v = vl.add(pt, list(patches))
    if near == 0:
        ctx.prove("new-point-gets-a-new-vertex-appended-last", v is vl.vertices[-1] and len(vl.vertices) == m + 1 and v.index == m)
        ctx.prove("new-vertex-at-the-points-position-with-its-projection", ctx.eq(v.position, x) and v.projected_to == ["geo"])
    else:
        ctx.prove("existing-vertex-reused", v is existing[near - 1] and len(vl.vertices) == m)
    ctx.prove("older-vertices-keep-index-and-position", all(vl.vertices[i] is existing[i] and existing[i].index == i and ctx.eq(existing[i].position, pts[i]) for i in range(m)))
    if keyed == "slave" and m >= 1 and near >= 1:
        # the same point with a different slave-patch set is a different vertex
        w = vl.add(Point(x), ["s2"])
        ctx.prove("different-slave-patch-set-gets-its-own-copy", w is not v and w.index == len(vl.vertices) - 1)
        w2 = vl.add(Point(x), [])
        ctx.prove("master-side-never-shares-with-slave-copies", w2 is not v and w2 is not w)


@proof("C05", "VertexList.add/slave-key-is-a-set", cases=["ab-then-ba", "ba-then-ab", "three-names"], level="S",
       functions=[VL + "add", VL + "find_duplicated", "classy_blocks.lists.vertex_list:DuplicatedEntry.__init__"],
       note="the slave-patch key of a corner is a set: the order in which patch names arrive must not matter")
def slave_key_is_a_set(ctx):
    vl = VertexList()
    x = ctx.vec("x")
    names = {"ab-then-ba": (["alpha_s", "zeta_s"], ["zeta_s", "alpha_s"]), "ba-then-ab": (["zeta_s", "alpha_s"], ["alpha_s", "zeta_s"]),
             "three-names": (["m", "zeta_s", "alpha_s"], ["alpha_s", "m", "zeta_s"])}[ctx.case]
    v1 = vl.add(Point(x), list(names[0]))
    v2 = vl.add(Point(x), list(names[1]))
    ctx.prove("same-set-of-slave-patches-same-vertex", v1 is v2 and len(vl.vertices) == 1)
    v3 = vl.add(Point(x), [names[0][0]])
    ctx.prove("subset-of-the-patches-is-a-different-key", v3 is not v1 and len(vl.vertices) == 2)


@proof("C05", "history/blocks-moved-apart-after-backport-are-apart", cases=["translate", "move-one-corner"], level="S", samples=1,
       functions=["classy_blocks.mesh:Mesh.backport", "classy_blocks.construct.flat.face:Face.update", VL + "add", "classy_blocks.mesh:Mesh.assemble"],
       note="two touching boxes: assemble, backport, clear, then the second box is moved away (in place) and the mesh assembled again - "
            "corners are where the user put them, and shared exactly where they still coincide")
def moved_apart(ctx):
    a, b = Box([0.0, 0.0, 0.0], [1.0, 1.0, 1.0]), Box([1.0, 0.0, 0.0], [2.0, 1.0, 1.0])
    mesh = Mesh()
    mesh.add(a)
    mesh.add(b)
    mesh.assemble(skip_edges=True)
    ctx.prove("touching-boxes-share-four-vertices", len(mesh.vertices) == 12)
    mesh.backport()
    mesh.clear()
    intended_a = np.asarray(a.point_array, dtype=float).copy()
    intended_b = np.asarray(b.point_array, dtype=float).copy()
    if ctx.case == "translate":
        b.translate([0.5, 0.0, 0.0])
        intended_b = intended_b + np.array([0.5, 0.0, 0.0])
        expected = 16
    else:
        b.bottom_face.points[0].translate([0.0, -0.3, 0.0])     # corner 0 of b touched corner 1 of a
        intended_b[0] = intended_b[0] + np.array([0.0, -0.3, 0.0])
        expected = 13
    ctx.prove("the-other-box-is-where-it-was", bool(np.allclose(np.asarray(a.point_array, dtype=float), intended_a, atol=1e-12)))
    ctx.prove("the-moved-box-is-where-the-user-put-it", bool(np.allclose(np.asarray(b.point_array, dtype=float), intended_b, atol=1e-12)))
    mesh.assemble(skip_edges=True)
    ctx.prove("vertices-shared-exactly-where-corners-still-coincide", len(mesh.vertices) == expected, n=len(mesh.vertices))
    for op, want in ((a, intended_a), (b, intended_b)):
        blk = mesh.blocks[[a, b].index(op)]
        ctx.prove("vertex-sits-at-its-corner", all(np.allclose(np.asarray(blk.vertices[c].position, dtype=float), want[c], atol=TOL) for c in range(8)))


@proof("C05", "history/merged-pair-declared-after-a-first-assembly", cases=["two-pairs-meeting-at-an-edge", "two-slave-patches-on-one-block-pair", "chain-of-merged-pairs", "stack-merged-interface"],
       level="S", samples=1,
       functions=["classy_blocks.lists.patch_list:PatchList.slave_patches", "classy_blocks.lists.patch_list:PatchList.merge", "classy_blocks.mesh:Mesh._add_vertices",
                  "classy_blocks.mesh:Mesh.clear"],
       note="the mesh is assembled with only the first merged pair declared (none for a layout with one pair), then the remaining pair is "
            "declared, the mesh cleared and assembled again: connectivity is that of the pairs declared now (round 5: slave names remembered "
            "from the first assembly)")
def merged_pair_declared_later(ctx):
    cells, patches, merges = LAYOUTS[ctx.case]
    ops = [Box(np.array(c, dtype=float), np.array(c, dtype=float) + 1.0) for c in cells]
    for bi, d in patches.items():
        for side, name in d.items():
            ops[bi].set_patch(side, name)
    mesh = Mesh()
    early, late = merges[:-1], merges[-1:]
    for m_, s_ in early:
        mesh.merge_patches(m_, s_)
    for op in ops:
        mesh.add(op)
    mesh.assemble(skip_edges=True)
    check_connectivity(ctx, mesh, ops, {s_ for _, s_ in early}, TOL)
    for m_, s_ in late:
        mesh.merge_patches(m_, s_)
    mesh.clear()
    mesh.assemble(skip_edges=True)
    ctx.prove("after-the-later-declaration/as-many-blocks", len(mesh.blocks) == len(ops))
    check_connectivity(ctx, mesh, ops, {s_ for _, s_ in merges}, TOL)
