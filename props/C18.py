"""C18 — finders are exact; viewpoint re-orientation canonicalises block numbering."""
import itertools

import numpy as np

import classy_blocks as cb
from classy_blocks.items.vertex import Vertex
from classy_blocks.mesh import Mesh
from classy_blocks.modify.find.geometric import GeometricFinder
from classy_blocks.modify.find.shape import RoundSolidFinder
from classy_blocks.modify.reorient.viewpoint import ViewpointReorienter
from classy_blocks.util import functions as f
from classy_blocks.util.constants import TOL
from contracts.spec import assemblies as A
from contracts.spec import geom as G
from contracts.spec import hexa
from pyvc.harness import proof
from pyvc.sym import And, Not, Or

FD = "classy_blocks.modify.find."


class _FakeMesh:
    def __init__(self, vertices):
        self.vertices = vertices


@proof("C18", "find_in_sphere/exact", cases=[(m, r) for m in (1, 2, 3) for r in ("given-radius", "default-tolerance")], level="S",
       functions=[FD + "finder:FinderBase._find_by_position", FD + "geometric:GeometricFinder.find_in_sphere"], timeout=60,
       note="shape bound: meshes of 1..3 vertices; vertex positions, query centre and radius symbolic")
def in_sphere(ctx):
    m, rmode = ctx.case
    vs = [Vertex(ctx.vec(f"v{i}"), i) for i in range(m)]
    finder = GeometricFinder(_FakeMesh(vs))
    p = ctx.vec("p")
    if rmode == "given-radius":
        r = ctx.real("r", lo=1e-9, hi=10)
        found = finder.find_in_sphere(p, r)
        r2 = r * r
    else:
        found = finder.find_in_sphere(p)
        t = ctx.const(TOL)
        r2 = t * t
    for v in vs:
        inside = G.dist2(v.position, p) < r2
        ctx.prove("returned-iff-strictly-inside-the-sphere", inside if v in found else Not(inside), vertex=v.index)
    ctx.prove("only-mesh-vertices-returned", all(any(x is v for v in vs) for x in found))


@proof("C18", "find_on_plane/exact", cases=[1, 2], level="S", functions=[FD + "geometric:GeometricFinder.find_on_plane", "classy_blocks.util.functions:is_point_on_plane",
                                                                           "classy_blocks.util.functions:point_to_plane_distance"],
       timeout=90, note="vertex positions, plane point and (non-unit) normal symbolic; Cauchy-Schwarz used as axiom for the coincident-point shortcut")
def on_plane(ctx):
    m = ctx.case
    vs = [Vertex(ctx.vec(f"v{i}"), i) for i in range(m)]
    finder = GeometricFinder(_FakeMesh(vs))
    o, n = ctx.vec("o"), ctx.vec("n")
    ctx.assume(G.norm2(n) > 0.01)
    t = ctx.const(TOL)
    nu = f.unit_vector(n) if ctx.symbolic else n / np.linalg.norm(n)
    for v in vs:
        d = v.position - o
        ctx.axiom("Cauchy-Schwarz: (d.n^)^2 <= d.d for a unit vector n^", G.dot(d, nu) * G.dot(d, nu) <= G.norm2(d) * (1 + 1e-12))
    found = finder.find_on_plane(o, n)
    for v in vs:
        dist = abs(G.dot(v.position - o, nu))
        on = dist < t
        if ctx.symbolic:
            ctx.prove("returned-iff-within-tolerance-of-the-plane", on if v in found else Not(on), vertex=v.index)
        else:
            band = abs(float(dist) - TOL) < 0.3 * TOL
            ctx.prove("returned-iff-within-tolerance-of-the-plane", band or (bool(on) == (v in found)), vertex=v.index)


@proof("C18", "bounded/finders-on-meshes", cases=["boxes", "cylinder", "boxes; finder outlives a re-assembly", "cylinder; finder outlives a re-assembly"], level="B", samples=25,
       functions=[FD + "geometric:GeometricFinder.find_on_plane", FD + "geometric:GeometricFinder.find_in_sphere"],
       note="bounded stand-in: meshes of random boxes/cylinders, query planes through three mesh vertices with non-unit normals, spheres of random radius")
def finders_bounded(ctx):
    rng = ctx.rng
    mesh = Mesh()
    scale = 10 ** rng.uniform(-3, 1)
    if ctx.case.startswith("boxes"):
        for c in [(0, 0, 0), (1, 0, 0), (0, 1, 0)][: rng.randint(1, 3)]:
            mesh.add(cb.Box(np.array(c) * scale, (np.array(c) + 1) * scale))
    else:
        mesh.add(cb.Cylinder([0, 0, 0], [0, 0, 2 * scale], [scale, 0, 0]))
    mesh.assemble(skip_edges=True)
    finder = GeometricFinder(mesh)
    if "re-assembly" in ctx.case:
        # the finder answers about the mesh as it is when asked: a vertex is moved and the mesh re-assembled in between
        finder.find_in_sphere(np.asarray(mesh.vertices[0].position, dtype=float), scale)
        mesh.vertices[rng.randrange(len(mesh.vertices))].translate(np.array([0.11, -0.07, 0.13]) * scale)
        if rng.random() < 0.5:
            mesh.backport()
        else:
            mesh.clear()
            mesh.assemble(skip_edges=True)
    P = np.array([np.asarray(v.position, dtype=float) for v in mesh.vertices])
    i, j, k = rng.sample(range(len(P)), 3)
    n = np.cross(P[j] - P[i], P[k] - P[i])
    if np.linalg.norm(n) > 1e-9 * scale * scale:
        n = n * rng.choice([1.0, 10 ** rng.uniform(-4, 4) / np.linalg.norm(n)])   # as obtained from a cross product, or rescaled
        found = {v.index for v in finder.find_on_plane(P[i], n)}
        dist = np.abs((P - P[i]) @ (n / np.linalg.norm(n)))
        want = {q for q in range(len(P)) if dist[q] < TOL}
        unsure = {q for q in range(len(P)) if abs(dist[q] - TOL) < 0.5 * TOL}
        ctx.prove("plane-finder-exact", found - unsure == want - unsure, found=sorted(found), want=sorted(want))
    c = P[rng.randrange(len(P))] + np.array([rng.uniform(-1, 1) for _ in range(3)]) * scale * 0.3
    r = rng.uniform(0.1, 1.5) * scale
    got = finder.find_in_sphere(c, r)
    ctx.prove("found-vertices-are-vertices-of-the-mesh", all(any(v is w for w in mesh.vertices) for v in got))
    found = {v.index for v in got}
    dd = np.linalg.norm(P - c, axis=1)
    ctx.prove("sphere-finder-exact", found == {q for q in range(len(P)) if dd[q] < r})


# ------------------------------------------------------------------------------ round shapes
@proof("C18", "RoundSolidFinder/core-and-rim-of-the-requested-face", cases=["cylinder", "frustum", "elbow"], level="S", samples=6,
       functions=[FD + "shape:RoundSolidFinder.find_core", FD + "shape:RoundSolidFinder.find_shell", FD + "shape:RoundSolidFinder._get_sketch",
                  FD + "shape:RoundSolidFinder._find_from_faces"],
       note="one placement per class in the proof run (random placements in the bounded tier); every order of the four queries on one finder object")
def round_finder(ctx):
    rng = None if ctx.symbolic else ctx.rng
    u = (lambda a, b: rng.uniform(a, b)) if rng else (lambda a, b: (a + b) / 2)
    c = np.array([u(-3, 3), u(-3, 3), u(-3, 3)])
    ax = np.array([u(-1, 1), u(-1, 1), u(0.5, 2)])
    ax = ax / np.linalg.norm(ax)
    r = np.cross(ax, [1.0, 0.3, 0.2])
    r = r / np.linalg.norm(r) * u(0.5, 2)
    R, L = np.linalg.norm(r), u(1, 3)
    if ctx.case == "cylinder":
        shape = cb.Cylinder(c, c + ax * L, c + r)
    elif ctx.case == "frustum":
        shape = cb.Frustum(c, c + ax * L, c + r, R * 0.5)
    else:
        shape = cb.Elbow(c, c + r, ax, 1.1, c + np.cross(ax, r) / R * 4 * R, r / R, R * 0.8)
    mesh = Mesh()
    mesh.add(shape)
    mesh.add(cb.Box(c + 50, c + 51))      # unrelated block
    mesh.assemble(skip_edges=True)
    P = np.array([np.asarray(v.position, dtype=float) for v in mesh.vertices])

    def oracle(end):
        sk = shape.sketch_2 if end else shape.sketch_1
        cen = np.asarray(sk.center, dtype=float)
        nrm = np.asarray(sk.normal, dtype=float)
        rad = float(sk.radius)
        in_plane = [q for q in range(len(P)) if abs(np.dot(P[q] - cen, nrm)) < 1e-7 * (1 + rad) and np.linalg.norm(P[q] - cen) < rad * (1 + 1e-7)]
        rim = {q for q in in_plane if abs(np.linalg.norm(P[q] - cen) - rad) < 1e-7 * rad}
        return set(in_plane) - rim, rim

    finder = RoundSolidFinder(mesh, shape)
    queries = [("core", False), ("core", True), ("shell", False), ("shell", True)]
    for order in itertools.permutations(queries):
        for what, end in order:
            got = {v.index for v in (finder.find_core(end) if what == "core" else finder.find_shell(end))}
            core, rim = oracle(end)
            ctx.prove("exactly-the-core-or-rim-vertices-of-the-requested-face", got == (core if what == "core" else rim),
                      what=what, end=end, got=sorted(got), want=sorted(core if what == "core" else rim))


# ------------------------------------------------------------------------------ re-orienter (bounded)
def all_numberings():
    """The 48 numberings of a hexahedron: 24 rotations and their mirror images."""
    out = []
    for p in A.ROT:
        out.append(list(p))
        mirrored = [p[i] for i in (1, 0, 3, 2, 5, 4, 7, 6)]      # reflect x: swaps 0<->1, 3<->2, 4<->5, 7<->6
        out.append(mirrored)
    return out


@proof("C18", "bounded/ViewpointReorienter", cases=list(range(48)), level="B", samples=4,
       functions=["classy_blocks.modify.reorient.viewpoint:ViewpointReorienter.reorient"],
       note="bounded stand-in only (qhull is external; no crisp distortion limit): mildly distorted convex hexahedra (corner "
            "displacement <= 0.12 of the edge), viewpoints in general position, all 48 initial numberings")
def reorienter(ctx):
    rng = ctx.rng
    perm = all_numberings()[ctx.case]
    base = np.array(A.COORDS, dtype=float) * np.array([rng.uniform(0.8, 2), rng.uniform(0.8, 2), rng.uniform(0.8, 2)])
    base += np.array([[rng.uniform(-0.12, 0.12) for _ in range(3)] for _ in range(8)])
    if rng.random() < 0.4:
        # a small block far from the origin (millimetres at a kilometre): the same block, the same answer
        base = base * rng.choice([0.005, 0.05]) + np.array([rng.choice([-1, 1]) * rng.uniform(300, 1500) for _ in range(3)])
    size = float(np.linalg.norm(base[6] - base[0]))
    centre = base.mean(axis=0)
    pts = base[perm]
    op = cb.Loft(cb.Face(pts[:4]), cb.Face(pts[4:]))
    observer = centre + np.array([rng.uniform(-0.3, 0.3), -rng.uniform(20, 40), rng.uniform(-0.3, 0.3)]) * size / 2
    ceiling = centre + np.array([rng.uniform(-0.3, 0.3), rng.uniform(-0.3, 0.3), rng.uniform(20, 40)]) * size / 2
    _, exc = ctx.call(ViewpointReorienter(observer, ceiling).reorient, op)
    ctx.prove("a-convex-block-can-be-re-oriented", exc is None, exc=repr(exc))
    if exc is not None:
        return
    new = np.asarray(op.point_array, dtype=float)
    ctx.prove("same-eight-points", all(any(np.allclose(p, q, atol=1e-9 * (1 + np.abs(q).max())) for q in base) for p in new) and len(new) == 8)
    fc = lambda side: new[sorted(hexa.FACE_SPEC[side])].mean(axis=0)
    c2 = new.mean(axis=0)
    ctx.prove("front-side-faces-the-observer", np.dot(fc("front") - c2, observer - c2) > 0 and
              all(np.dot(fc("front") - c2, observer - c2) >= np.dot(fc(s) - c2, observer - c2) for s in hexa.SIDES))
    ctx.prove("top-side-faces-the-ceiling", all(np.dot(fc("top") - c2, ceiling - c2) >= np.dot(fc(s) - c2, ceiling - c2) for s in hexa.SIDES))
    jac = np.dot(np.cross(new[1] - new[0], new[3] - new[0]), new[4] - new[0])
    ctx.prove("right-handed", jac > 0)
    # canonical: independent of the initial numbering -> equals the result for the identity numbering
    op0 = cb.Loft(cb.Face(base[:4]), cb.Face(base[4:]))
    ViewpointReorienter(observer, ceiling).reorient(op0)
    ctx.prove("independent-of-the-initial-numbering", bool(np.allclose(np.asarray(op0.point_array, dtype=float), new, atol=1e-9 * (1 + np.abs(new).max()))))
