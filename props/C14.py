"""C14 — the block quality measure depends only on the cell's shape."""
import itertools

import numpy as np

from classy_blocks.optimize.cell import HexCell, QuadCell
from contracts.spec import geom as G
from contracts.spec import hexa
from pyvc.harness import proof
from pyvc.sym import And, Or

CELL = "classy_blocks.optimize.cell:"
FUNCS = [CELL + "CellBase.quality", CELL + "CellBase.get_edge_lengths", CELL + "CellBase.center", CELL + "CellBase.get_side_center",
         CELL + "CellBase.get_side_points", CELL + "CellBase.points"]


class _Nb:
    def __init__(self, center):
        self.center = center


def hex_rotations():
    """The 24 orientation-preserving symmetries of the hexahedron numbering, as permutations
    p with new_corner[i] = old_corner[p[i]], generated from the cube's vertex coordinates."""
    coords = [(0, 0, 0), (1, 0, 0), (1, 1, 0), (0, 1, 0), (0, 0, 1), (1, 0, 1), (1, 1, 1), (0, 1, 1)]
    perms = []
    for axes in itertools.permutations(range(3)):
        for signs in itertools.product((1, -1), repeat=3):
            m = np.zeros((3, 3), dtype=int)
            for r in range(3):
                m[r, axes[r]] = signs[r]
            if round(np.linalg.det(m)) != 1:
                continue
            p = []
            for c in coords:
                v = m @ (np.array(c) * 2 - 1)
                p.append(coords.index(tuple(((v + 1) // 2).astype(int))))
            perms.append(tuple(p))
    assert len(set(perms)) == 24
    return sorted(set(perms))


HEX_ROT = hex_rotations()
QUAD_ROT = [tuple((i + k) % 4 for i in range(4)) for k in range(4)]


def apply(kind, ctx, P):
    """The rigid motion `kind` applied to an (n,3) array of points."""
    if kind == "translate":
        return P + ctx.vec("d")
    th = ctx.real("theta")
    if ctx.symbolic:
        c, s = th.cos(), th.sin()
    else:
        import math

        c, s = math.cos(th), math.sin(th)
    o = ctx.vec("o")
    Q = P - o
    a, b = {"rotx": (1, 2), "roty": (2, 0), "rotz": (0, 1)}[kind]
    R = Q.copy()
    R[:, a] = c * Q[:, a] - s * Q[:, b]
    R[:, b] = s * Q[:, a] + c * Q[:, b]
    return R + o


def hexcell(P, idx=None, nb=None):
    cell = HexCell(P, list(idx if idx is not None else range(8)))
    if nb is not None:
        for name, c in nb.items():
            cell.neighbours[name] = _Nb(c)
    return cell


MOTIONS = ["translate", "rotx", "roty", "rotz"]
NOTE_GEN = ("every rigid motion is a composition of a translation and rotations about the three coordinate axes "
            "(generators of SE(3), A4); invariance under each generator for all angles/offsets gives invariance under the group")


@proof("C14", "HexCell.quality/rigid-motion", cases=[(m, n) for m in MOTIONS for n in ("no-neighbours", "six-neighbours")],
       functions=FUNCS + [CELL + "HexCell.get_side_normals", CELL + "HexCell.get_inner_angles"], note=NOTE_GEN, samples=6,
       timeout=200)
def hex_rigid(ctx):
    kind, nbs = ctx.case
    P = ctx.mat("p", 8)
    nb = nb2 = None
    if nbs == "six-neighbours":
        C = ctx.mat("n", 6)
        C2 = apply(kind, ctx, C)
        nb = {name: C[i] for i, name in enumerate(HexCell.side_names)}
        nb2 = {name: C2[i] for i, name in enumerate(HexCell.side_names)}
    q1 = hexcell(P, nb=nb).quality
    q2 = hexcell(apply(kind, ctx, P), nb=nb2).quality
    ctx.prove("quality-unchanged", ctx.eq(q2, q1, tol=1e-6))


@proof("C14", "HexCell.quality/renumbering", cases=list(range(24)), functions=FUNCS, samples=6, timeout=200,
       note="24 orientation-preserving renumberings; neighbours (if any) move with their side")
def hex_renumber(ctx):
    perm = HEX_ROT[ctx.case]
    P = ctx.mat("p", 8)
    C = ctx.mat("n", 6)
    base = hexcell(P, nb={name: C[i] for i, name in enumerate(HexCell.side_names)})
    q1 = base.quality
    # renumbered cell: corner i of the new cell is corner perm[i] of the old one
    idx = list(perm)
    # a side of the new numbering consists of old corners {perm[c] for c in side}; find which old side that is
    nb2 = {}
    for i, name in enumerate(HexCell.side_names):
        old_corners = frozenset(perm[c] for c in hexa.FACE_SPEC[name])
        old_name = [s for s in hexa.SIDES if hexa.FACE_SPEC[s] == old_corners][0]
        nb2[name] = C[HexCell.side_names.index(old_name)]
    q2 = hexcell(P, idx=idx, nb=nb2).quality
    ctx.prove("quality-unchanged", ctx.eq(q2, q1, tol=1e-6))


@proof("C14", "QuadCell.quality/rigid-motion", cases=[(m, n) for m in MOTIONS for n in ("no-neighbours", "four-neighbours")],
       functions=FUNCS + [CELL + "QuadCell.get_side_normals", CELL + "QuadCell.get_inner_angles", CELL + "QuadCell.normal"],
       note=NOTE_GEN, samples=6, timeout=200)
def quad_rigid(ctx):
    kind, nbs = ctx.case
    P = ctx.mat("p", 4)

    def cell(P, C):
        c = QuadCell(P, [0, 1, 2, 3])
        if C is not None:
            for i, name in enumerate(QuadCell.side_names):
                c.neighbours[name] = _Nb(C[i])
        return c

    C = C2 = None
    if nbs != "no-neighbours":
        C = ctx.mat("n", 4)
        C2 = apply(kind, ctx, C)
    q1 = cell(P, C).quality
    q2 = cell(apply(kind, ctx, P), C2).quality
    ctx.prove("quality-unchanged", ctx.eq(q2, q1, tol=1e-6))


@proof("C14", "bounded/QuadCell.quality/renumbering", cases=list(range(4)), functions=FUNCS, samples=40, level="B",
       note="bounded stand-in only: planar convex quadrilaterals in a random plane, 4 cyclic renumberings (the proof would "
            "need sqrt(l^2 R) = l sqrt(R) for l > 0, which the ideal back end does not decide); for non-planar 'quads' the "
            "value does depend on the first corner (QuadCell.normal uses corner 0 only) - outside the property's domain")
def quad_renumber(ctx):
    perm = QUAD_ROT[ctx.case]
    rng = ctx.rng
    o = np.array([rng.uniform(-3, 3) for _ in range(3)])
    e1 = np.array([rng.uniform(-1, 1) for _ in range(3)])
    e2 = np.array([rng.uniform(-1, 1) for _ in range(3)])
    base = [(0, 0), (1, 0), (1, 1), (0, 1)]
    uv = [(u * rng.uniform(0.7, 2) + rng.uniform(-0.2, 0.2), v * rng.uniform(0.7, 2) + rng.uniform(-0.2, 0.2)) for u, v in base]
    P = np.array([o + u * e1 + v * e2 for u, v in uv])
    C = np.array([[rng.uniform(-3, 3) for _ in range(3)] for _ in range(4)])
    # convex, non-degenerate
    def cr(a, b, c):
        return (b[0] - a[0]) * (c[1] - a[1]) - (b[1] - a[1]) * (c[0] - a[0])
    ctx.assume(all(cr(uv[i], uv[(i + 1) % 4], uv[(i + 2) % 4]) > 0.05 for i in range(4)) and np.linalg.norm(np.cross(e1, e2)) > 0.2)
    c1 = QuadCell(P, [0, 1, 2, 3])
    for i, name in enumerate(QuadCell.side_names):
        c1.neighbours[name] = _Nb(C[i])
    c2 = QuadCell(P, list(perm))
    for i, name in enumerate(QuadCell.side_names):
        # new side i joins new corners i, i+1 = old corners perm[i], perm[i+1] = old side perm[i]
        c2.neighbours[name] = _Nb(C[perm[i]])
    ctx.prove("quality-unchanged", ctx.eq(c2.quality, c1.quality, tol=1e-6))


# ------------------------------------------------------------------------------ tables
@proof("C14", "cell-tables", cases=["hex", "quad"], functions=[CELL + "CellBase.get_edge_lengths", CELL + "HexCell", CELL + "QuadCell"])
def tables(ctx):
    if ctx.case == "hex":
        P = ctx.mat("p", 8)
        cell = HexCell(P, list(range(8)))
        spec_edges = hexa.EDGE_SETS
        faces = [frozenset(s) for s in HexCell.side_indexes]
        ctx.prove("side-tables-are-the-six-faces",
                  all(frozenset(HexCell.side_indexes[i]) == hexa.FACE_SPEC[n] for i, n in enumerate(HexCell.side_names))
                  and sorted(HexCell.side_names) == sorted(hexa.SIDES) and len(faces) == 6)
        ctx.prove("sides-walk-around-their-face",
                  all(hexa.is_quad_cycle(HexCell.side_indexes[i], n) for i, n in enumerate(HexCell.side_names)))
    else:
        P = ctx.mat("p", 4)
        cell = QuadCell(P, [0, 1, 2, 3])
        spec_edges = [frozenset((i, (i + 1) % 4)) for i in range(4)]
        ctx.prove("side-tables-are-the-four-edges",
                  [frozenset(s) for s in QuadCell.side_indexes] == spec_edges)
    ctx.prove("edge-pairs-are-the-cell-edges", sorted(map(sorted, map(frozenset, cell.edge_pairs))) == sorted(map(sorted, spec_edges)))
    lengths = list(cell.get_edge_lengths())
    ctx.prove("one-length-per-edge", len(lengths) == len(spec_edges))
    # each edge of the cell is measured: some returned length equals the distance between its two corners
    for e in spec_edges:
        a, b = sorted(e)
        d2 = G.dist2(P[a], P[b])
        ctx.prove(f"edge-{a}-{b}-is-measured", Or([ctx.eq(l * l, d2) for l in lengths]))


@proof("C14", "stretch/same-rise-in-each-direction", cases=[(0, 1), (0, 2)], functions=FUNCS, samples=8, timeout=200,
       note="box a×a×a stretched by k along direction i versus direction j")
def stretch_same(ctx):
    i, j = ctx.case
    a = ctx.real("a", lo=0.5, hi=5)
    k = ctx.real("k", lo=1, hi=20)
    unit = np.array(hexa_cube(), dtype=object if ctx.symbolic else float)

    def box(direction):
        s = [a, a, a]
        s[direction] = a * k
        return unit * np.array(s, dtype=object if ctx.symbolic else float)

    qi = hexcell(box(i)).quality
    qj = hexcell(box(j)).quality
    ctx.prove("same-value", ctx.eq(qi, qj, tol=1e-6))


def hexa_cube():
    return [[0, 0, 0], [1, 0, 0], [1, 1, 0], [0, 1, 0], [0, 0, 1], [1, 0, 1], [1, 1, 1], [0, 1, 1]]


@proof("C14", "bounded/scaling-and-stretch-monotone", cases=["scale", "scale-quad", "stretch", "rigid-motion-of-exact-boxes"], functions=FUNCS, bounded=True, samples=60,
       level="B", note="bounded stand-in only: uniform scaling 0.1..100 of cells of size >= 0.1 (VSMALL makes it approximate); "
                       "stretching a cube never lowers the value; exact cubes and boxes (all angles exactly right, where the float "
                       "evaluation is most delicate) keep their value under random rotations and translations")
def bounded_scale(ctx):
    rng = ctx.rng
    if ctx.case == "scale":
        P = np.array(hexa_cube(), dtype=float) * rng.uniform(0.5, 3) + np.array([[rng.uniform(-0.15, 0.15) for _ in range(3)] for _ in range(8)])
        r = 10 ** rng.uniform(-0.3, 2)
        q1 = hexcell(P).quality
        q2 = hexcell(P * r).quality
        ctx.prove("scale-invariant-within-1e-3-relative", abs(q1 - q2) <= 1e-3 * max(1.0, abs(q1)), q1=q1, q2=q2, r=r)
    elif ctx.case == "scale-quad":
        base = np.array([[0, 0, 0], [1, 0, 0], [1, 1, 0], [0, 1, 0]], dtype=float)
        P = base + np.array([[rng.uniform(-0.1, 0.1), rng.uniform(-0.1, 0.1), 0.0] for _ in range(4)])
        r1, r2 = 10 ** rng.uniform(-1, 2), 10 ** rng.uniform(-1, 2)
        q1 = QuadCell(P * r1, [0, 1, 2, 3]).quality
        q2 = QuadCell(P * r2, [0, 1, 2, 3]).quality
        ctx.prove("quad-scale-invariant-within-1e-3", abs(q1 - q2) <= 1e-3 * max(1.0, abs(q1)), q1=q1, q2=q2, r1=r1, r2=r2)
    elif ctx.case == "rigid-motion-of-exact-boxes":
        import math as _m

        box = np.array(hexa_cube(), dtype=float) * np.array(rng.choice([[1.0, 1.0, 1.0], [1.0, 2.0, 3.0], [5.0, 5.0, 1.0], [0.1, 0.1, 0.4]]))
        q = np.array([rng.gauss(0, 1) for _ in range(4)])
        q = q / np.linalg.norm(q)
        a_, b_, c_, d_ = q
        R = np.array([[a_ * a_ + b_ * b_ - c_ * c_ - d_ * d_, 2 * (b_ * c_ - a_ * d_), 2 * (b_ * d_ + a_ * c_)],
                      [2 * (b_ * c_ + a_ * d_), a_ * a_ - b_ * b_ + c_ * c_ - d_ * d_, 2 * (c_ * d_ - a_ * b_)],
                      [2 * (b_ * d_ - a_ * c_), 2 * (c_ * d_ + a_ * b_), a_ * a_ - b_ * b_ - c_ * c_ + d_ * d_]])
        moved = box @ R.T + np.array([rng.uniform(-10, 10) for _ in range(3)])
        ref = hexcell(box).quality
        val, exc = ctx.call(lambda: hexcell(moved).quality)
        ctx.prove("a-rigidly-moved-box-can-still-be-measured", exc is None, exc=repr(exc))
        if exc is None:
            ctx.prove("and-has-the-same-value", abs(val - ref) <= 1e-6 * max(1.0, abs(ref)), ref=ref, val=val)
    else:
        a = rng.uniform(0.5, 5)
        k1 = rng.uniform(1, 10)
        k2 = k1 * rng.uniform(1.0, 3)
        d = rng.randrange(3)

        def box(k):
            s = [a, a, a]
            s[d] = a * k
            return np.array(hexa_cube(), dtype=float) * np.array(s)

        ctx.prove("stretch-never-lowers", hexcell(box(k2)).quality >= hexcell(box(k1)).quality - 1e-9)


# ------------------------------------------------------------------------------ no hidden state
from classy_blocks.optimize.grid import HexGrid, QuadGrid  # noqa: E402
from classy_blocks.optimize.links import TranslationLink  # noqa: E402

GRID = "classy_blocks.optimize.grid:GridBase."


def _quad_points(ctx):
    # 3 x 2 lattice of symbolic points: two quads side by side plus one more row -> 4 cells, 9 points
    return ctx.mat("g", 9)


QUADS = [[0, 1, 4, 3], [1, 2, 5, 4], [3, 4, 7, 6], [4, 5, 8, 7]]


@proof("C14", "quality-is-a-function-of-current-points/quad-grid", cases=["move-corner", "move-centre", "move-linked-leader", "move-twice"],
       functions=FUNCS + [GRID + "update", GRID + "quality", CELL + "QuadCell.normal"], samples=6, timeout=200,
       note="after any sequence of GridBase.update calls (with links) every cell's value equals that of a freshly built cell at "
            "the same coordinates: no stale cache or remembered state enters the measure")
def quad_grid_state(ctx):
    P = _quad_points(ctx)
    grid = QuadGrid(P.copy(), [list(q) for q in QUADS])
    _ = grid.quality                       # evaluate everything once (fills whatever is cached)
    for c in grid.cells:
        _ = c.quality
    case = ctx.case
    if case == "move-linked-leader":
        # junction 0 leads junction 8 (they share no cell)
        grid.junctions[0].add_link(TranslationLink(grid.points[0], grid.points[8]), 8)
        grid.update(5, ctx.vec("m5"))
        grid.update(0, ctx.vec("m0"))
    elif case == "move-corner":
        grid.update(0, ctx.vec("m0"))
    elif case == "move-centre":
        grid.update(4, ctx.vec("m4"))
    else:
        grid.update(4, ctx.vec("m4"))
        grid.update(1, ctx.vec("m1"))
        grid.update(4, ctx.vec("n4"))
    fresh = QuadGrid(np.array(grid.points).copy(), [list(q) for q in QUADS])
    for k in range(len(QUADS)):
        ctx.prove(f"cell{k}/same-as-fresh-cell", ctx.eq(grid.cells[k].quality, fresh.cells[k].quality, tol=1e-6))
    ctx.prove("grid-quality-same-as-fresh-grid", ctx.eq(grid.quality, fresh.quality, tol=1e-6))


HEXES = [[0, 1, 4, 3, 6, 7, 10, 9], [1, 2, 5, 4, 7, 8, 11, 10]]


@proof("C14", "quality-is-a-function-of-current-points/hex-grid", cases=["move-shared", "move-linked-leader"],
       functions=FUNCS + [GRID + "update", GRID + "quality"], samples=6, timeout=200)
def hex_grid_state(ctx):
    P = ctx.mat("h", 12)
    grid = HexGrid(P.copy(), [list(q) for q in HEXES])
    _ = grid.quality
    if ctx.case == "move-linked-leader":
        grid.junctions[0].add_link(TranslationLink(grid.points[0], grid.points[11]), 11)
        grid.update(4, ctx.vec("m4"))
        grid.update(0, ctx.vec("m0"))
    else:
        grid.update(4, ctx.vec("m4"))
    fresh = HexGrid(np.array(grid.points).copy(), [list(q) for q in HEXES])
    for k in range(2):
        ctx.prove(f"cell{k}/same-as-fresh-cell", ctx.eq(grid.cells[k].quality, fresh.cells[k].quality, tol=1e-6))


# ------------------------------------------------------------------------------ whole grids (cells find their own neighbours)
def _rot(rng):
    q = np.array([rng.gauss(0, 1) for _ in range(4)])
    a_, b_, c_, d_ = q / np.linalg.norm(q)
    return np.array([[a_ * a_ + b_ * b_ - c_ * c_ - d_ * d_, 2 * (b_ * c_ - a_ * d_), 2 * (b_ * d_ + a_ * c_)],
                     [2 * (b_ * c_ + a_ * d_), a_ * a_ - b_ * b_ + c_ * c_ - d_ * d_, 2 * (c_ * d_ - a_ * b_)],
                     [2 * (b_ * d_ - a_ * c_), 2 * (c_ * d_ + a_ * b_), a_ * a_ - b_ * b_ - c_ * c_ + d_ * d_]])


@proof("C14", "bounded/grid-quality/rigid-motion-and-renumbering", cases=["hex-grid", "quad-grid-slender", "hex-grid-from-mesh-small-blocks"], level="B", samples=10,
       functions=["classy_blocks.optimize.grid:GridBase._bind_cell_neighbours", "classy_blocks.optimize.grid:HexGrid.from_mesh", "classy_blocks.optimize.grid:GridBase.quality",
                  "classy_blocks.optimize.cell:CellBase.add_neighbour"],
       note="bounded stand-in: the summed quality of a grid whose cells find their own neighbours is the same after a random rigid motion and "
            "after renumbering every cell in its own one of the valid ways (24 for a hexahedron, 4 for a quadrilateral)")
def grid_quality(ctx):
    from contracts.spec import assemblies as A_

    rng = ctx.rng
    R, t = _rot(rng), np.array([rng.uniform(-10, 10) for _ in range(3)])
    if ctx.case == "quad-grid-slender":
        n = 3
        P = np.array([[6.0 * i, float(j), 0.0] for j in range(2) for i in range(n + 1)]) + np.array([[rng.uniform(-0.2, 0.2), rng.uniform(-0.1, 0.1), 0.0] for _ in range(2 * (n + 1))])
        cells = [[i, i + 1, i + n + 2, i + n + 1] for i in range(n)]
        make = lambda pts, cs: QuadGrid(np.array(pts, dtype=float), [list(c) for c in cs])
        renumber = lambda cs: [[c[(k + 1 + 2 * (i % 2)) % 4] for k in range(4)] for i, c in enumerate(cs)]
    else:
        idx = lambda i, j, k: (k * 3 + j) * 3 + i
        size = 0.05 if ctx.case.endswith("small-blocks") else 1.0
        P = np.array([[float(i), float(j), float(k)] for k in range(3) for j in range(3) for i in range(3)]) * size
        P += np.array([[rng.uniform(-0.15, 0.15) for _ in range(3)] for _ in range(27)]) * size
        cells = [[idx(i, j, k), idx(i + 1, j, k), idx(i + 1, j + 1, k), idx(i, j + 1, k), idx(i, j, k + 1), idx(i + 1, j, k + 1), idx(i + 1, j + 1, k + 1), idx(i, j + 1, k + 1)]
                 for k in range(2) for j in range(2) for i in range(2)]
        if ctx.case == "hex-grid":
            make = lambda pts, cs: HexGrid(np.array(pts, dtype=float), [list(c) for c in cs])
        else:
            import classy_blocks as cb
            from classy_blocks.mesh import Mesh

            def make(pts, cs):
                mesh = Mesh()
                for c in cs:
                    mesh.add(cb.Loft(cb.Face([pts[i] for i in c[:4]]), cb.Face([pts[i] for i in c[4:]])))
                mesh.assemble(skip_edges=True)
                return HexGrid.from_mesh(mesh)
        renumber = lambda cs: [[c[i] for i in A_.ROT[(5 * k + 7) % 24]] for k, c in enumerate(cs)]
    q0 = make(P, cells).quality
    q_moved = make(P @ R.T + t, cells).quality
    q_renumbered = make(P, renumber(cells)).quality
    ctx.prove("same-quality-after-a-rigid-motion", abs(q_moved - q0) <= 1e-8 * max(1.0, abs(q0)), q0=q0, q=q_moved)
    ctx.prove("same-quality-after-renumbering-every-cell", abs(q_renumbered - q0) <= 1e-8 * max(1.0, abs(q0)), q0=q0, q=q_renumbered)
