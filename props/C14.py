"""C14 — the block quality measure depends only on the cell's shape."""
import itertools

import numpy as np

from classy_blocks.optimize.cell import HexCell, QuadCell
from contracts.spec import geom as G
from contracts.spec import hexa
from pyvc.harness import proof
from pyvc.sym import And, Or

CELL = "classy_blocks.optimize.cell:"
FUNCS = [CELL + "CellBase.quality", CELL + "CellBase.get_edge_lengths", CELL + "CellBase.center", CELL + "CellBase.get_side_center",
         CELL + "CellBase.get_side_points", CELL + "CellBase.points"]


class _Nb:
    def __init__(self, center):
        self.center = center


def hex_rotations():
    """The 24 orientation-preserving symmetries of the hexahedron numbering, as permutations
    p with new_corner[i] = old_corner[p[i]], generated from the cube's vertex coordinates."""
    coords = [(0, 0, 0), (1, 0, 0), (1, 1, 0), (0, 1, 0), (0, 0, 1), (1, 0, 1), (1, 1, 1), (0, 1, 1)]
    perms = []
    for axes in itertools.permutations(range(3)):
        for signs in itertools.product((1, -1), repeat=3):
            m = np.zeros((3, 3), dtype=int)
            for r in range(3):
                m[r, axes[r]] = signs[r]
            if round(np.linalg.det(m)) != 1:
                continue
            p = []
            for c in coords:
                v = m @ (np.array(c) * 2 - 1)
                p.append(coords.index(tuple(((v + 1) // 2).astype(int))))
            perms.append(tuple(p))
    assert len(set(perms)) == 24
    return sorted(set(perms))


HEX_ROT = hex_rotations()
QUAD_ROT = [tuple((i + k) % 4 for i in range(4)) for k in range(4)]


def apply(kind, ctx, P):
    """The rigid motion `kind` applied to an (n,3) array of points."""
    if kind == "translate":
        return P + ctx.vec("d")
    th = ctx.real("theta")
    if ctx.symbolic:
        c, s = th.cos(), th.sin()
    else:
        import math

        c, s = math.cos(th), math.sin(th)
    o = ctx.vec("o")
    Q = P - o
    a, b = {"rotx": (1, 2), "roty": (2, 0), "rotz": (0, 1)}[kind]
    R = Q.copy()
    R[:, a] = c * Q[:, a] - s * Q[:, b]
    R[:, b] = s * Q[:, a] + c * Q[:, b]
    return R + o


def hexcell(P, idx=None, nb=None):
    cell = HexCell(P, list(idx if idx is not None else range(8)))
    if nb is not None:
        for name, c in nb.items():
            cell.neighbours[name] = _Nb(c)
    return cell


MOTIONS = ["translate", "rotx", "roty", "rotz"]
NOTE_GEN = ("every rigid motion is a composition of a translation and rotations about the three coordinate axes "
            "(generators of SE(3), A4); invariance under each generator for all angles/offsets gives invariance under the group")


@proof("C14", "HexCell.quality/rigid-motion", cases=[(m, n) for m in MOTIONS for n in ("no-neighbours", "six-neighbours")],
       functions=FUNCS + [CELL + "HexCell.get_side_normals", CELL + "HexCell.get_inner_angles"], note=NOTE_GEN, samples=6,
       timeout=200)
def hex_rigid(ctx):
    kind, nbs = ctx.case
    P = ctx.mat("p", 8)
    nb = nb2 = None
    if nbs == "six-neighbours":
        C = ctx.mat("n", 6)
        C2 = apply(kind, ctx, C)
        nb = {name: C[i] for i, name in enumerate(HexCell.side_names)}
        nb2 = {name: C2[i] for i, name in enumerate(HexCell.side_names)}
    q1 = hexcell(P, nb=nb).quality
    q2 = hexcell(apply(kind, ctx, P), nb=nb2).quality
    ctx.prove("quality-unchanged", ctx.eq(q2, q1, tol=1e-6))


@proof("C14", "HexCell.quality/renumbering", cases=list(range(24)), functions=FUNCS, samples=6, timeout=200,
       note="24 orientation-preserving renumberings; neighbours (if any) move with their side")
def hex_renumber(ctx):
    perm = HEX_ROT[ctx.case]
    P = ctx.mat("p", 8)
    C = ctx.mat("n", 6)
    base = hexcell(P, nb={name: C[i] for i, name in enumerate(HexCell.side_names)})
    q1 = base.quality
    # renumbered cell: corner i of the new cell is corner perm[i] of the old one
    idx = list(perm)
    # a side of the new numbering consists of old corners {perm[c] for c in side}; find which old side that is
    nb2 = {}
    for i, name in enumerate(HexCell.side_names):
        old_corners = frozenset(perm[c] for c in hexa.FACE_SPEC[name])
        old_name = [s for s in hexa.SIDES if hexa.FACE_SPEC[s] == old_corners][0]
        nb2[name] = C[HexCell.side_names.index(old_name)]
    q2 = hexcell(P, idx=idx, nb=nb2).quality
    ctx.prove("quality-unchanged", ctx.eq(q2, q1, tol=1e-6))


@proof("C14", "QuadCell.quality/rigid-motion", cases=[(m, n) for m in MOTIONS for n in ("no-neighbours", "four-neighbours")],
       functions=FUNCS + [CELL + "QuadCell.get_side_normals", CELL + "QuadCell.get_inner_angles", CELL + "QuadCell.normal"],
       note=NOTE_GEN, samples=6, timeout=200)
def quad_rigid(ctx):
    kind, nbs = ctx.case
    P = ctx.mat("p", 4)

    def cell(P, C):
        c = QuadCell(P, [0, 1, 2, 3])
        if C is not None:
            for i, name in enumerate(QuadCell.side_names):
                c.neighbours[name] = _Nb(C[i])
        return c

    C = C2 = None
    if nbs != "no-neighbours":
        C = ctx.mat("n", 4)
        C2 = apply(kind, ctx, C)
    q1 = cell(P, C).quality
    q2 = cell(apply(kind, ctx, P), C2).quality
    ctx.prove("quality-unchanged", ctx.eq(q2, q1, tol=1e-6))


@proof("C14", "bounded/QuadCell.quality/renumbering", cases=list(range(4)), functions=FUNCS, samples=40, level="B",
       note="bounded stand-in only: planar convex quadrilaterals in a random plane, 4 cyclic renumberings (the proof would "
            "need sqrt(l^2 R) = l sqrt(R) for l > 0, which the ideal back end does not decide); for non-planar 'quads' the "
            "value does depend on the first corner (QuadCell.normal uses corner 0 only) - outside the property's domain")
def quad_renumber(ctx):
    perm = QUAD_ROT[ctx.case]
    rng = ctx.rng
    o = np.array([rng.uniform(-3, 3) for _ in range(3)])
    e1 = np.array([rng.uniform(-1, 1) for _ in range(3)])
    e2 = np.array([rng.uniform(-1, 1) for _ in range(3)])
    base = [(0, 0), (1, 0), (1, 1), (0, 1)]
    uv = [(u * rng.uniform(0.7, 2) + rng.uniform(-0.2, 0.2), v * rng.uniform(0.7, 2) + rng.uniform(-0.2, 0.2)) for u, v in base]
    P = np.array([o + u * e1 + v * e2 for u, v in uv])
    C = np.array([[rng.uniform(-3, 3) for _ in range(3)] for _ in range(4)])
    # convex, non-degenerate
    def cr(a, b, c):
        return (b[0] - a[0]) * (c[1] - a[1]) - (b[1] - a[1]) * (c[0] - a[0])
    ctx.assume(all(cr(uv[i], uv[(i + 1) % 4], uv[(i + 2) % 4]) > 0.05 for i in range(4)) and np.linalg.norm(np.cross(e1, e2)) > 0.2)
    c1 = QuadCell(P, [0, 1, 2, 3])
    for i, name in enumerate(QuadCell.side_names):
        c1.neighbours[name] = _Nb(C[i])
    c2 = QuadCell(P, list(perm))
    for i, name in enumerate(QuadCell.side_names):
        # new side i joins new corners i, i+1 = old corners perm[i], perm[i+1] = old side perm[i]
        c2.neighbours[name] = _Nb(C[perm[i]])
    ctx.prove("quality-unchanged", ctx.eq(c2.quality, c1.quality, tol=1e-6))


# ------------------------------------------------------------------------------ tables
@proof("C14", "cell-tables", cases=["hex", "quad"], functions=[CELL + "CellBase.get_edge_lengths", CELL + "HexCell", CELL + "QuadCell"])
def tables(ctx):
    if ctx.case == "hex":
        P = ctx.mat("p", 8)
        cell = HexCell(P, list(range(8)))
        spec_edges = hexa.EDGE_SETS
        faces = [frozenset(s) for s in HexCell.side_indexes]
        ctx.prove("side-tables-are-the-six-faces",
                  all(frozenset(HexCell.side_indexes[i]) == hexa.FACE_SPEC[n] for i, n in enumerate(HexCell.side_names))
                  and sorted(HexCell.side_names) == sorted(hexa.SIDES) and len(faces) == 6)
        ctx.prove("sides-walk-around-their-face",
                  all(hexa.is_quad_cycle(HexCell.side_indexes[i], n) for i, n in enumerate(HexCell.side_names)))
    else:
        P = ctx.mat("p", 4)
        cell = QuadCell(P, [0, 1, 2, 3])
        spec_edges = [frozenset((i, (i + 1) % 4)) for i in range(4)]
        ctx.prove("side-tables-are-the-four-edges",
                  [frozenset(s) for s in QuadCell.side_indexes] == spec_edges)
    ctx.prove("edge-pairs-are-the-cell-edges", sorted(map(sorted, map(frozenset, cell.edge_pairs))) == sorted(map(sorted, spec_edges)))
    lengths = list(cell.get_edge_lengths())
    ctx.prove("one-length-per-edge", len(lengths) == len(spec_edges))
    # each edge of the cell is measured: some returned length equals the distance between its two corners
    for e in spec_edges:
        a, b = sorted(e)
        d2 = G.dist2(P[a], P[b])
        ctx.prove(f"edge-{a}-{b}-is-measured", Or([ctx.eq(l * l, d2) for l in lengths]))


@proof("C14", "stretch/same-rise-in-each-direction", cases=[(0, 1), (0, 2)], functions=FUNCS, samples=8, timeout=200,
       note="box a×a×a stretched by k along direction i versus direction j")
def stretch_same(ctx):
    i, j = ctx.case
    a = ctx.real("a", lo=0.5, hi=5)
    k = ctx.real("k", lo=1, hi=20)
    unit = np.array(hexa_cube(), dtype=object if ctx.symbolic else float)

    def box(direction):
        s = [a, a, a]
        s[direction] = a * k
        return unit * np.array(s, dtype=object if ctx.symbolic else float)

    qi = hexcell(box(i)).quality
    qj = hexcell(box(j)).quality
    ctx.prove("same-value", ctx.eq(qi, qj, tol=1e-6))


def hexa_cube():
    return [[0, 0, 0], [1, 0, 0], [1, 1, 0], [0, 1, 0], [0, 0, 1], [1, 0, 1], [1, 1, 1], [0, 1, 1]]


@proof("C14", "bounded/scaling-and-stretch-monotone", cases=["scale", "stretch"], functions=FUNCS, bounded=True, samples=60,
       level="B", note="bounded stand-in only: uniform scaling 0.1..100 of cells of size >= 0.1 (VSMALL makes it approximate); "
                       "stretching a cube never lowers the value")
def bounded_scale(ctx):
    rng = ctx.rng
    if ctx.case == "scale":
        P = np.array(hexa_cube(), dtype=float) * rng.uniform(0.5, 3) + np.array([[rng.uniform(-0.15, 0.15) for _ in range(3)] for _ in range(8)])
        r = 10 ** rng.uniform(-0.3, 2)
        q1 = hexcell(P).quality
        q2 = hexcell(P * r).quality
        ctx.prove("scale-invariant-within-1e-3-relative", abs(q1 - q2) <= 1e-3 * max(1.0, abs(q1)), q1=q1, q2=q2, r=r)
    else:
        a = rng.uniform(0.5, 5)
        k1 = rng.uniform(1, 10)
        k2 = k1 * rng.uniform(1.0, 3)
        d = rng.randrange(3)

        def box(k):
            s = [a, a, a]
            s[d] = a * k
            return np.array(hexa_cube(), dtype=float) * np.array(s)

        ctx.prove("stretch-never-lowers", hexcell(box(k2)).quality >= hexcell(box(k1)).quality - 1e-9)
