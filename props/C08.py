"""C08 — alternative arc specifications equal the analytic circle."""
import math

import numpy as np

from classy_blocks.construct import edges as E
from classy_blocks.items.edges.arcs.angle import arc_from_theta
from classy_blocks.items.edges.arcs.origin import arc_from_origin
from classy_blocks.items.edges.factory import factory
from classy_blocks.items.vertex import Vertex
from classy_blocks.util import functions as f
from contracts.spec import geom as G
from pyvc.harness import proof
from pyvc.sym import And, Not, Or

FN = "classy_blocks.util.functions:"
ANG = "classy_blocks.items.edges.arcs.angle:"
ORG = "classy_blocks.items.edges.arcs.origin:"
BASE = "classy_blocks.items.edges.arcs.arc_base:"


def frame(ctx):
    """A free centre and an orthogonal frame (e1, e2, e3) of equal-length vectors from a free
    quaternion - surjective onto all frames, polynomial (no square roots); radius = rho * |q|^2."""
    C = ctx.vec("C")
    q = [ctx.real(f"q{i}", lo=-2, hi=2) for i in range(4)]
    n2 = q[0] * q[0] + q[1] * q[1] + q[2] * q[2] + q[3] * q[3]
    ctx.assume(n2 > 0.3)
    rho = ctx.real("rho", lo=0.02, hi=30)
    e1, e2, e3 = G.quat_frame(q)
    if not ctx.symbolic:
        e1, e2, e3 = e1.astype(float), e2.astype(float), e3.astype(float)
    return C, e1 * rho, e2 * rho, e3, rho * n2


def cs(ctx, ang):
    if ctx.symbolic:
        return ang.cos(), ang.sin()
    return math.cos(ang), math.sin(ang)


HALF_RANGES = {
    "0<theta<pi": (0.02, math.pi / 2 - 0.02),
    "-pi<theta<0": (-math.pi / 2 + 0.02, -0.02),
    "pi<theta<2pi": (math.pi / 2 + 0.02, math.pi - 0.02),
    "-2pi<theta<-pi": (-math.pi + 0.02, -math.pi / 2 - 0.02),
}


MOVED = "; queried, then end points moved"


def _edge(ctx, p1, p2, data, moved, C=None):
    """The edge between p1 and p2; `moved`: it is first created somewhere else and queried (middle point, length,
    description), then its vertices (and origin) are moved to where the contract looks at it."""
    if not moved:
        return factory.create(Vertex(p1, 0), Vertex(p2, 1), data)
    v1, v2 = Vertex(np.array([1.0, 0.0, 0.0]), 0), Vertex(np.array([0.0, 1.0, 0.0]), 1)
    origin = getattr(data, "origin", None)
    if origin is not None:
        data.origin.move_to(np.array([0.0, 0.0, 0.0]))
    edge = factory.create(v1, v2, data)
    _ = (edge.third_point.position, edge.length, edge.description, edge.is_valid)
    v1.move_to(p1)
    v2.move_to(p2)
    if origin is not None:
        edge.data.origin.move_to(C)
    return edge


@proof("C08", "AngleEdge/third-point-is-the-arc-midpoint", cases=list(HALF_RANGES),
       functions=[ANG + "arc_from_theta", ANG + "AngleEdge.third_point", FN + "arc_mid", FN + "divide_arc", FN + "unit_vector"],
       samples=25, timeout=100,
       note="end points built from centre, frame, radius and the sector angle theta = 2*half; the written middle point must be "
            "C + Rot(axis, theta/2)(p1 - C): on the circle, in its plane, half-way, on the side the angle's sign describes")
def angle_third_point(ctx):
    C, r0, rp, axis, radius = frame(ctx)
    lo, hi = HALF_RANGES[ctx.case.replace(MOVED, "")]
    h = ctx.real("half", lo=lo, hi=hi)
    ch, sh = cs(ctx, h)
    c, s = ch * ch - sh * sh, 2 * sh * ch
    p1, p2 = C + r0, C + r0 * c + rp * s
    edge = _edge(ctx, p1, p2, E.Angle(2 * h, axis), MOVED in ctx.case)
    m = edge.third_point.position
    ctx.prove("middle-point-is-half-way-on-the-described-arc", ctx.eq(m, C + r0 * ch + rp * sh, tol=1e-6))
    ctx.prove("on-the-circle", ctx.eq(G.dist2(m, C), radius * radius, tol=1e-6))
    ctx.prove("in-the-plane-of-the-arc", ctx.eq(G.dot(m - C, axis), 0, tol=1e-6))


@proof("C08", "OriginEdge/third-point-is-the-arc-midpoint", cases=["0<theta<pi", "0<theta<pi" + MOVED],
       functions=[ORG + "arc_from_origin", ORG + "OriginEdge.third_point", FN + "arc_mid", FN + "divide_arc"], samples=25, timeout=100,
       note="flatness 1, origin equidistant from both end points; origin-based arcs describe the minor arc (theta < pi)")
def origin_third_point(ctx):
    C, r0, rp, axis, radius = frame(ctx)
    lo, hi = HALF_RANGES[ctx.case.replace(MOVED, "")]
    h = ctx.real("half", lo=lo, hi=hi)
    ch, sh = cs(ctx, h)
    c, s = ch * ch - sh * sh, 2 * sh * ch
    p1, p2 = C + r0, C + r0 * c + rp * s
    edge = _edge(ctx, p1, p2, E.Origin(C, 1), MOVED in ctx.case, C)
    m = edge.third_point.position
    ctx.prove("middle-point-is-half-way-on-the-circle-about-the-origin", ctx.eq(m, C + r0 * ch + rp * sh, tol=1e-6))
    ctx.prove("on-the-circle", ctx.eq(G.dist2(m, C), radius * radius, tol=1e-6))


THREE = {
    "alpha<pi": ((0.05, math.pi - 0.05), "below"),
    "alpha>pi,beta<pi": ((math.pi + 0.05, 2 * math.pi - 0.05), "beta<pi"),
    "alpha>pi,beta>pi": ((math.pi + 0.1, 2 * math.pi - 0.05), "beta>pi"),
}


@proof("C08", "bounded/arc_length_3point/radius-times-angle", cases=list(THREE), functions=[FN + "arc_length_3point"], samples=40, level="B",
       note="bounded stand-in only (the symbolic proof - lemmas on the code's arccos argument and side test, then arccos-of-cos "
            "axioms - closes single lemmas in 10-50 s but the whole obligation did not fit the solver budgets): start, given and "
            "end point at angles 0 < beta < alpha < 2pi on a circle in general position: length = R*alpha")
def arc_length(ctx):
    C, r0, rp, axis, radius = frame(ctx)
    (lo, hi), bmode = THREE[ctx.case]
    alpha = ctx.real("alpha", lo=lo, hi=hi)
    beta = ctx.real("beta", lo=0.02, hi=2 * math.pi)
    ctx.assume(beta < alpha - 0.02)
    if bmode == "beta<pi":
        ctx.assume(beta < math.pi - 0.02)
    elif bmode == "beta>pi":
        ctx.assume(beta > math.pi + 0.02)
    ca, sa = cs(ctx, alpha)
    cb, sb = cs(ctx, beta)
    ps, pb, pe = C + r0, C + r0 * cb + rp * sb, C + r0 * ca + rp * sa
    length, exc = ctx.call(f.arc_length_3point, ps, pb, pe)
    if exc is not None:
        # the collinearity guard fired: impossible for these inputs (|a x b|^2 = R^4(...) > 0) but not
        # decided by the back ends; natively the bounded tier sees no exception
        ctx.prove("only-the-collinearity-guard-may-reject", isinstance(exc, ValueError))
        return
    # lemmas about what the code computes (stated on its own terms, not on a copy of its formula)
    for k, x in enumerate(ctx.atom_args(length, "arccos")):
        ctx.lemma(f"lemma/cosine-of-the-included-angle-{k}", ctx.eq(x, ca))
    r4 = radius * radius * radius * radius
    dec = ctx.decisions()
    if dec:
        # the last decision before returning is the exterior/interior side test
        ctx.lemma("lemma/side-test-is-R^4*sin(beta)*sin(alpha)", ctx.eq(dec[-1], r4 * sb * sa))
    ctx.prove("length-is-radius-times-included-angle", ctx.eq(length, radius * alpha, tol=1e-6))


@proof("C08", "bounded/Angle-Origin-edge/length-is-radius-times-angle", cases=["angle", "origin", "angle" + MOVED, "origin" + MOVED],
       functions=[BASE + "ArcEdgeBase.length", BASE + "ArcEdgeBase.is_valid", ANG + "AngleEdge.third_point", ORG + "OriginEdge.third_point"],
       samples=40, level="B", note="bounded stand-in only; 0 < theta < pi")
def edge_length(ctx):
    C, r0, rp, axis, radius = frame(ctx)
    h = ctx.real("half", lo=0.05, hi=math.pi / 2 - 0.05)
    ch, sh = cs(ctx, h)
    c, s = ch * ch - sh * sh, 2 * sh * ch
    p1, p2 = C + r0, C + r0 * c + rp * s
    data = E.Angle(2 * h, axis) if ctx.case.startswith("angle") else E.Origin(C, 1)
    edge = _edge(ctx, p1, p2, data, MOVED in ctx.case, C)
    length = edge.length
    if ctx.symbolic:
        theta = SR(ctx, 2 * h)
        for k, x in enumerate(ctx.atom_args(length, "arccos")):
            ctx.lemma(f"lemma/cosine-of-the-included-angle-{k}", ctx.eq(x, theta.cos()))
    ctx.prove("length-is-radius-times-angle", ctx.eq(length, radius * 2 * h, tol=1e-6))


def SR(ctx, v):
    from pyvc.sym import SReal, lift

    return v if isinstance(v, SReal) else SReal(lift(v))


# ------------------------------------------------------------------------------ chord bound (bounded tier)
@proof("C08", "bounded/length-at-least-chord", cases=["line", "arc", "origin", "angle", "spline", "polyLine", "project"], level="B", samples=40,
       functions=["classy_blocks.items.edges.edge:Edge.length", BASE + "ArcEdgeBase.length", "classy_blocks.items.edges.curve:SplineEdge.length"],
       note="bounded stand-in only: triangle inequality / sin x <= x are not decided by the back ends for general positions")
def chord_bound(ctx):
    rng = ctx.rng
    v = lambda s=3.0: np.array([rng.uniform(-s, s) for _ in range(3)])
    scale = 10 ** rng.uniform(-1.5, 1.5)
    p1, p2 = v() * scale, v() * scale
    ctx.assume(np.linalg.norm(p1 - p2) > 0.05 * scale)
    k = ctx.case
    if k == "line":
        data = E.Line()
    elif k == "arc":
        data = E.Arc((p1 + p2) / 2 + v() * scale * 0.5)
    elif k == "origin":
        mid, d = (p1 + p2) / 2, p2 - p1
        n = np.cross(d, v())
        ctx.assume(np.linalg.norm(n) > 0.1 * scale)
        data = E.Origin(mid + n / np.linalg.norm(n) * np.linalg.norm(d) * rng.uniform(0.2, 3))
    elif k == "angle":
        d = p2 - p1
        ax = np.cross(d, v())
        ctx.assume(np.linalg.norm(ax) > 0.1 * scale)
        data = E.Angle(rng.uniform(0.1, 3.0) * rng.choice((-1, 1)), ax)
    elif k in ("spline", "polyLine"):
        cls = E.Spline if k == "spline" else E.PolyLine
        data = cls([p1 + (p2 - p1) * t + v() * scale * 0.3 for t in (0.25, 0.5, 0.75)])
    else:
        data = E.Project("geo")
    edge = factory.create(Vertex(p1, 0), Vertex(p2, 1), data)
    chord = np.linalg.norm(p1 - p2)
    ctx.prove("length-at-least-chord", edge.length >= chord * (1 - 1e-9), length=edge.length, chord=chord)


# ------------------------------------------------------------------------------------------------
# arc_length_3point on the canonical circle (centre 0, plane z = 0, start on the x axis; free radius and free
# angles): P.  The companion obligation "the function is invariant under the generators of the rigid motions"
# (three free points, 2 x 2 decisions whose agreement needs degree-4 identities in 12 variables inside the
# path pruning) did not close within 600 s per generator and was removed again: circles in general position
# stay with the bounded proof above (DESIGN 9).
@proof("C08", "arc_length_3point/canonical-circle/radius-times-angle", cases=list(THREE), functions=[FN + "arc_length_3point"],
       samples=25, timeout=60,
       note="circle about the origin in the plane z = 0, start point on the x axis, free radius; given and end point at angles "
            "0 < beta < alpha < 2pi: length = R*alpha")
def arc_length_canonical(ctx):
    R = ctx.real("R", lo=0.02, hi=30)
    (lo, hi), bmode = THREE[ctx.case]
    alpha = ctx.real("alpha", lo=lo, hi=hi)
    beta = ctx.real("beta", lo=0.02, hi=2 * math.pi)
    ctx.assume(beta < alpha - 0.02)
    if bmode == "beta<pi":
        ctx.assume(beta < math.pi - 0.02)
    elif bmode == "beta>pi":
        ctx.assume(beta > math.pi + 0.02)
    ca, sa = cs(ctx, alpha)
    cb, sb = cs(ctx, beta)
    zero = R * 0
    ps, pb, pe = np.array([R, zero, zero]), np.array([R * cb, R * sb, zero]), np.array([R * ca, R * sa, zero])
    if not ctx.symbolic:
        ps, pb, pe = ps.astype(float), pb.astype(float), pe.astype(float)
    length, exc = ctx.call(f.arc_length_3point, ps, pb, pe)
    if exc is not None:
        # the collinearity guard |a x b|^2 < 1e-18 fired: a precondition of the law (the guard is a float-noise
        # threshold, not part of the property); natively, on the sampled domain, it must never fire
        if not ctx.symbolic:
            ctx.prove("not-rejected-on-the-sampled-domain", False)
        elif not isinstance(exc, ValueError):
            ctx.prove("only-the-collinearity-guard-may-reject", False)
        return
    for k, x in enumerate(ctx.atom_args(length, "arccos")):
        ctx.lemma(f"lemma/cosine-of-the-included-angle-{k}", ctx.eq(x, ca))
    for k, x in enumerate(ctx.atom_args(length, "sqrt")):
        ctx.lemma(f"lemma/every-radius-vector-has-length-R-{k}", ctx.eq(x, R * R))
    dec = ctx.decisions()
    if dec:
        ctx.lemma("lemma/side-test-is-R^4*sin(beta)*sin(alpha)", ctx.eq(dec[-1], R * R * R * R * sb * sa))
        if ctx.symbolic:
            # sign of the side test from the quadrants of alpha and beta (A4), in steps the solver closes one by one
            ss = sb * sa
            ctx.lemma("lemma/sign-of-sin(beta)*sin(alpha)", ss > 0 if bmode != "beta<pi" else ss < 0)
            r4 = R * R * R * R
            ctx.lemma("lemma/R^4-positive", r4 > 0)
            ctx.lemma("lemma/sign-of-the-side-test", dec[-1] > 0 if bmode != "beta<pi" else dec[-1] < 0)
    if ctx.symbolic:
        for k, x in enumerate(ctx.atoms(length, "sqrt")):
            ctx.lemma(f"lemma/norm-is-R-{k}", ctx.eq(x, R))
        inc = alpha if bmode == "below" else 2 * math.pi - alpha
        for k, x in enumerate(ctx.atoms(length, "arccos")):
            ctx.lemma(f"lemma/arccos-returns-the-smaller-of-alpha-and-2pi-minus-alpha-{k}", ctx.eq(x, inc))
    ctx.prove("length-is-radius-times-included-angle", ctx.eq(length, R * alpha, tol=1e-6))
