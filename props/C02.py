"""C02 — grading propagation terminates, completes and is order-independent."""
import os
import tempfile

import numpy as np

from classy_blocks.base.exceptions import InconsistentGradingsError, UndefinedGradingsError
from classy_blocks.items.block import Block
from classy_blocks.items.wires import axis as axis_mod
from classy_blocks.lists.block_list import BlockList
from classy_blocks.mesh import Mesh
from contracts.spec import assemblies as A
from pyvc import shims
from pyvc.harness import proof
from pyvc.sym import And, Not, Or

BL = "classy_blocks.lists.block_list:BlockList."
AX = "classy_blocks.items.wires.axis:Axis."


class Livelock(Exception):
    pass


def build(cells, rots, chops, order, ctx, fam_symbols=True):
    """chops: {box: {global direction: symbol name}} - directions of one family use one symbol."""
    ops = [A.make_operation(A.box_points(c, rot=r)) for c, r in zip(cells, rots)]
    syms = {}
    for bi, dirs in chops.items():
        for g, name in dirs.items():
            if name not in syms:
                syms[name] = ctx.int(name, 1, 30)
            local, _ = A.local_axis_of_global(rots[bi], "xyz".index(g))
            ops[bi].chop(local, count=syms[name])
    mesh = Mesh()
    for i in order:
        mesh.add(ops[i])
    return mesh, ops, syms


def run_grade(ctx, mesh, bound_factor=12):
    """mesh.assemble + grade with a progress bound on the per-block copy step."""
    mesh.assemble()
    nblocks = len(mesh.blocks)
    bound = bound_factor * (3 * nblocks + 1) * max(1, nblocks)
    calls = [0]
    real = Block.copy_grading

    def counted(self):
        calls[0] += 1
        if calls[0] > bound:
            raise Livelock(f"more than {bound} copy steps for {nblocks} blocks")
        return real(self)

    with ctx.stub(Block, "copy_grading", counted, only_symbolic=False):
        _, exc = ctx.call(mesh.grade)
    return exc, calls[0], bound


ROW3 = [(0, 0, 0), (1, 0, 0), (2, 0, 0)]
FOUR = [(0, 0, 0), (1, 0, 0), (2, 0, 0), (1, 1, 0)]
WELL = {
    # name: (cells, rotations, chops{box:{dir:symbol}}, insertion order)
    "two-boxes-one-chopped": ([(0, 0, 0), (1, 0, 0)], [0, 0], {0: {"x": "a", "y": "b", "z": "c"}, 1: {"x": "d"}}, [0, 1]),
    "two-boxes-second-flipped": ([(0, 0, 0), (1, 0, 0)], [0, 10], {0: {"x": "a", "y": "b", "z": "c"}, 1: {"x": "d"}}, [1, 0]),
    "row3-ends-chopped": (ROW3, [0, 4, 0], {0: {"x": "a", "y": "b", "z": "c"}, 1: {"x": "d"}, 2: {"x": "e", "z": "c"}}, [0, 2, 1]),
    "four-boxes-livelock-shape": (FOUR, [0, 0, 0, 0], {0: {"x": "a", "y": "b", "z": "c"}, 2: {"x": "e", "z": "c"}, 1: {"x": "d"}, 3: {"y": "f"}}, [0, 2, 1, 3]),
    "four-boxes-livelock-shape-rotated": (FOUR, [0, 9, 0, 17], {0: {"x": "a", "y": "b", "z": "c"}, 2: {"x": "e", "z": "c"}, 1: {"x": "d"}, 3: {"y": "f"}}, [0, 2, 1, 3]),
    "four-boxes-other-order": (FOUR, [0, 0, 0, 0], {0: {"x": "a", "y": "b", "z": "c"}, 2: {"x": "e", "z": "c"}, 1: {"x": "d"}, 3: {"y": "f"}}, [3, 1, 2, 0]),
    "chain-through-unchopped": (ROW3, [0, 0, 0], {0: {"x": "a", "y": "b", "z": "c"}, 1: {"x": "d"}, 2: {"x": "e"}}, [2, 1, 0]),
}
UNDER = {
    "middle-direction-without-chop": (ROW3, [0, 0, 0], {0: {"x": "a", "y": "b", "z": "c"}, 2: {"x": "e"}}, [0, 1, 2]),
    "isolated-box-partly-chopped": ([(0, 0, 0), (3, 0, 0)], [0, 0], {0: {"x": "a", "y": "b", "z": "c"}, 1: {"x": "d"}}, [0, 1]),
    "four-boxes-one-family-missing": (FOUR, [0, 0, 0, 0], {0: {"x": "a", "y": "b", "z": "c"}, 2: {"x": "e"}, 1: {"x": "d"}}, [0, 2, 1, 3]),
}
ORDERS = ["insertion-order", "reversed-order"]
import itertools  # noqa: E402

ROW4 = [(0, 0, 0), (1, 0, 0), (2, 0, 0), (3, 0, 0)]
for _k, _perm in enumerate(itertools.permutations(range(4))):
    # a chain of three hops: y and z chopped on the first box only, every box chopped along the row
    WELL[f"row4-chain-order-{''.join(map(str, _perm))}"] = (
        ROW4, [0, 0, 6 if _k % 3 == 0 else 0, 0],
        {0: {"x": "a", "y": "b", "z": "c"}, 1: {"x": "d"}, 2: {"x": "e"}, 3: {"x": "g"}}, list(_perm))


COLUMN4 = [(0, -1, 0), (0, 0, 0), (0, 1, 0), (0, 2, 0)]
for _kb in range(24):
    for _kc in ((_kb * 7 + 5) % 24, (_kb * 11 + 13) % 24):
        # a column along y, every box chopped along y; the x count is given on the last box only and the z count on the first
        # only: x travels 3 -> 2 -> 1 -> 0 while z travels 0 -> 1 -> 2 -> 3, through two middle boxes in any two numberings
        WELL[f"column4-cross-flow-{_kb}-{_kc}"] = (
            COLUMN4, [0, _kb, _kc, 0], {0: {"y": "a", "z": "c"}, 1: {"y": "b"}, 2: {"y": "d"}, 3: {"y": "e", "x": "f"}},
            [0, 1, 2, 3] if _kb % 2 == 0 else [2, 1, 3, 0])


def outcome(ctx, mesh):
    return [[ax.count if ax.is_defined else None for ax in b.axes] for b in mesh.blocks]


@proof("C02", "propagation/well-posed", cases=[(n, o) for n in WELL for o in ORDERS if not ((n.startswith("row4-chain") or n.startswith("column4")) and o == "reversed-order")], level="S", samples=2, timeout=60,
       functions=[BL + "propagate_gradings", BL + "grade_blocks", AX + "copy_grading", AX + "is_aligned", "classy_blocks.items.block:Block.copy_grading",
                  "classy_blocks.items.wires.manager:WirePropagateManager.grade", "classy_blocks.grading.chop:Chop.copy_preserving"],
       note="shape bound: listed assemblies (<= 4 boxes, rotated numberings, insertion orders); chop counts symbolic (one symbol per "
            "family); neighbour/coincident sets iterated in insertion order and in reversed order (A8)")
def well_posed(ctx):
    name, order_mode = ctx.case
    cells, rots, chops, order = WELL[name]
    shims.OrderedSet.ITER_REVERSED[0] = (order_mode == "reversed-order") and ctx.symbolic
    try:
        mesh, ops, syms = build(cells, rots, chops, order, ctx)
        exc, ncalls, bound = run_grade(ctx, mesh)
    finally:
        shims.OrderedSet.ITER_REVERSED[0] = False
    ctx.prove("terminates-within-the-progress-bound", not isinstance(exc, Livelock), calls=ncalls, bound=bound)
    ctx.prove("succeeds-when-every-family-has-a-chop", exc is None, exc=repr(exc)[:200])
    if exc is not None:
        return
    # every direction of a family carries the count of the family's chop
    fams = A.families(mesh.blocks)
    op_of_block = [ops[i] for i in order]
    for fam in fams:
        want = None
        for (bi, ai) in fam:
            for ch in op_of_block[bi].chops[ai]:
                want = ch.count
        ctx.prove("family-has-a-chop", want is not None)
        for (bi, ai) in fam:
            ctx.prove("direction-carries-the-family-count", ctx.eq(mesh.blocks[bi].axes[ai].count, want), block=bi, axis=ai)
            ctx.prove("all-four-wires-defined", all(w.grading.is_defined for w in mesh.blocks[bi].axes[ai].wires))
    # grading the same mesh once more (a second write) ends the same way
    first = outcome(ctx, mesh)
    printed = [[ax.wires.count for ax in b.axes] for b in mesh.blocks]
    _, exc2 = ctx.call(mesh.grade)
    ctx.prove("grading-again-succeeds", exc2 is None, exc=repr(exc2)[:200])
    if exc2 is None:
        again = outcome(ctx, mesh)
        ctx.prove("grading-again-gives-the-same-counts", And([ctx.eq(a, b) for x, y in zip(first, again) for a, b in zip(x, y)]))
        for b in mesh.blocks:
            with ctx.rendering() as R:
                desc = b.description
            shown = desc.split("(")[2].split(")")[0].split()
            ctx.prove("hex-entry-prints-the-family-counts-after-grading-again",
                      len(shown) == 3 and And([ctx.eq(R.value(tok), ax.count) for tok, ax in zip(shown, b.axes)]), block=b.index)


@proof("C02", "propagation/under-specified", cases=[(n, o) for n in UNDER for o in ORDERS], level="S", samples=4, timeout=60,
       functions=[BL + "propagate_gradings", "classy_blocks.mesh:Mesh.write"])
def under_specified(ctx):
    name, order_mode = ctx.case
    cells, rots, chops, order = UNDER[name]
    shims.OrderedSet.ITER_REVERSED[0] = (order_mode == "reversed-order") and ctx.symbolic
    try:
        mesh, ops, syms = build(cells, rots, chops, order, ctx)
        exc, ncalls, bound = run_grade(ctx, mesh)
    finally:
        shims.OrderedSet.ITER_REVERSED[0] = False
    ctx.prove("terminates-within-the-progress-bound", not isinstance(exc, Livelock), calls=ncalls, bound=bound)
    ctx.prove("fails-with-undefined-grading-error", isinstance(exc, UndefinedGradingsError), exc=repr(exc)[:200])
    # some family really has no chop (the scenario is what it claims to be)
    fams = A.families(mesh.blocks)
    op_of_block = [ops[i] for i in order]
    ctx.prove("some-family-has-no-chop", any(all(len(op_of_block[bi].chops[ai]) == 0 for bi, ai in fam) for fam in fams))
    # and writing produces no file
    fd, path = tempfile.mkstemp(suffix=".bmd")
    os.close(fd)
    os.remove(path)
    m2, _, _ = build(cells, rots, chops, order, ctx)
    _, exc2 = ctx.call(m2.write, path)
    existed = os.path.exists(path)
    if existed:
        os.remove(path)
    ctx.prove("write-fails-and-leaves-no-file", isinstance(exc2, UndefinedGradingsError) and not existed)


# ------------------------------------------------------------------------------ Axis.copy_grading contract
@proof("C02", "Axis.copy_grading/contract", cases=[(al, st) for al in ("aligned", "anti-aligned") for st in ("neighbour-chopped", "neighbour-undefined", "self-defined", "two-sections", "two-equal-sections")],
       level="S", functions=[AX + "copy_grading", AX + "is_aligned", AX + "is_defined", "classy_blocks.grading.chop:Chop.copy_preserving",
                             "classy_blocks.grading.chop:Chop.invert"],
       note="two boxes sharing a face; the second one numbered so that the shared direction runs the same / the opposite way")
def copy_grading_contract(ctx):
    align, state = ctx.case
    # box 1 rotated by 180 degrees about z (rotation index with x -> -x, y -> -y) for the anti-aligned case
    rot1 = 0
    if align == "anti-aligned":
        rot1 = [i for i in range(24) if A.local_axis_of_global(i, 1) == (1, -1) and A.local_axis_of_global(i, 2) == (2, 1)][0]
    ops = [A.make_operation(A.box_points((0, 0, 0))), A.make_operation(A.box_points((1, 0, 0), rot=rot1))]
    n = ctx.int("n", 1, 30)
    m = ctx.int("m", 2, 30)
    ly, _ = A.local_axis_of_global(0, 1)
    if state in ("neighbour-chopped", "self-defined"):
        ops[0].chop(ly, count=n)
    if state == "two-equal-sections":   # the two halves of a direction chopped the same way are two chops, not one
        ops[0].chop(ly, count=n, length_ratio=0.5)
        ops[0].chop(ly, count=n, length_ratio=0.5)
    if state == "two-sections":
        ops[0].chop(ly, count=n, length_ratio=0.25)
        ops[0].chop(ly, count=m, length_ratio=0.75, total_expansion=ctx.real("E", lo=0.2, hi=5))
    l1, sgn = A.local_axis_of_global(rot1, 1)
    if state == "self-defined":
        ops[1].chop(l1, count=m)
    mesh = Mesh()
    mesh.add(ops[0])
    mesh.add(ops[1])
    mesh.assemble()
    mesh.block_list.grade_blocks()
    src, tgt = mesh.blocks[0].axes[ly], mesh.blocks[1].axes[l1]
    ctx.prove("directions-are-neighbours", src in tgt.neighbours and tgt in src.neighbours)
    ctx.prove("alignment-as-constructed", tgt.is_aligned(src) == (align == "aligned") and sgn == (1 if align == "aligned" else -1))
    before_spec = [[list(s) for s in w.grading.specification] for w in tgt.wires]
    was_defined = tgt.is_defined
    r = tgt.copy_grading()
    if state == "self-defined":
        ctx.prove("defined-direction-returns-false", r is False and was_defined)
        ctx.prove("defined-direction-untouched", [[list(s) for s in w.grading.specification] for w in tgt.wires] == before_spec
                  or And([ctx.eq(w.grading.count, m) for w in tgt.wires]))
    elif state == "neighbour-undefined":
        ctx.prove("no-defined-neighbour-returns-false", r is False)
        ctx.prove("still-undefined", not tgt.is_defined)
    else:
        ctx.prove("copied-returns-true", r is True)
        ctx.prove("now-defined-with-chops", tgt.is_defined and len(tgt.wires.chops) == len(src.wires.chops) > 0)
        total = {"neighbour-chopped": n, "two-sections": n + m, "two-equal-sections": n + n}[state]
        ctx.prove("every-wire-has-the-neighbours-count", And([ctx.eq(w.grading.count, total) for w in tgt.wires]))
        if state == "two-sections":
            got = [c.count for c in tgt.wires.chops]
            want = [n, m] if align == "aligned" else [m, n]
            ctx.prove("sections-in-order-or-reversed", And([ctx.eq(a, b) for a, b in zip(got, want)]))
            ratios = [c.length_ratio for c in tgt.wires.chops]
            ctx.prove("section-lengths-follow", ratios == ([0.25, 0.75] if align == "aligned" else [0.75, 0.25]))
    # a second call never changes a defined direction
    if tgt.is_defined:
        spec2 = [[list(s) for s in w.grading.specification] for w in tgt.wires]
        r2 = tgt.copy_grading()
        ctx.prove("idempotent-once-defined", r2 is False and len(spec2) == 4)


# ------------------------------------------------------------------------------ any internal iteration order: the same file
def _tapered_point(i, j, k):
    # a tapered lattice: the four vertical edges of every block have different lengths
    return [float(i), float(j), k * (1.0 + 0.17 * i + 0.29 * j + 0.11 * i * j)]


def _tapered_block(i, j, rot=0):
    pts = np.array([_tapered_point(i + c[0], j + c[1], c[2]) for c in A.COORDS], dtype=float)
    return A.make_operation(pts[list(A.ROT[rot])])


AROUND = {
    "four-around-an-edge/one-upside-down": ([(0, 0), (1, 0), (1, 1), (0, 1)], "flip-second"),
    "four-around-an-edge/two-upside-down": ([(0, 0), (1, 0), (1, 1), (0, 1)], "flip-second-and-fourth"),
    "four-around-an-edge/all-alike": ([(0, 0), (1, 0), (1, 1), (0, 1)], "none"),
    "three-in-a-row/middle-upside-down": ([(0, 0), (1, 0), (2, 0)], "flip-second"),
}


@proof("C02", "iteration-order/same-file-whatever-the-set-order", cases=[(n, p) for n in AROUND for p in ("start_size", "end_size", "c2c_expansion")], level="S", samples=2,
       timeout=120, functions=[AX + "copy_grading", "classy_blocks.items.wires.manager:WirePropagateManager.copy_neighbours",
                               "classy_blocks.items.wires.manager:WirePropagateManager.propagate_grading", "classy_blocks.grading.chop:Chop.copy_preserving",
                               "classy_blocks.grading.chop:Chop.invert", BL + "propagate_gradings"],
       note="tapered blocks (unequal parallel edges) around a common edge / in a row, one block chopped by cell size with a preserved "
            "quantity, some blocks numbered upside-down; the neighbour and coincident-wire sets are iterated in insertion order, in "
            "reversed order and in 10 seeded pseudo-random orders (A8: schedules, not all orders): every order must write the same blocks section")
def any_iteration_order(ctx):
    name, preserve = ctx.case
    cells, flips = AROUND[name]
    upside_down = [i for i in range(24) if A.local_axis_of_global(i, 2) == (2, -1)][0]
    texts = []
    modes = [("insertion", False, None), ("reversed", True, None)] + [(f"shuffle-{k}", False, k) for k in range(10)]
    if not ctx.symbolic:
        modes = [("native-set-order", False, None)] * 3    # the plain package: whatever order the addresses give
    for label, rev, seed in modes:
        shims.OrderedSet.ITER_REVERSED[0] = rev
        shims.OrderedSet.ITER_SEED[0] = seed
        shims.OrderedSet.CREATED[0] = 0
        try:
            mesh = Mesh()
            for k, (i, j) in enumerate(cells):
                flip = (flips == "flip-second" and k == 1) or (flips == "flip-second-and-fourth" and k in (1, 3))
                rot = upside_down if flip else 0
                op = _tapered_block(i, j, rot)
                for g in (0, 1):
                    op.chop(A.local_axis_of_global(rot, g)[0], count=2 + g)
                if k == 0:
                    kw = {"start_size": 0.05, "c2c_expansion": 1.2} if preserve != "end_size" else {"end_size": 0.05, "c2c_expansion": 0.85}
                    op.chop(2, preserve=preserve, **kw)
                mesh.add(op)
            fd, path = tempfile.mkstemp(suffix=".bmd")
            os.close(fd)
            try:
                _, exc = ctx.call(mesh.write, path)
                text = open(path).read() if exc is None else None
            finally:
                if os.path.exists(path):
                    os.remove(path)
        finally:
            shims.OrderedSet.ITER_REVERSED[0] = False
            shims.OrderedSet.ITER_SEED[0] = None
        ctx.prove("well-posed-mesh-is-written-in-every-order", exc is None, order=label, exc=repr(exc)[:200])
        if text is not None:
            texts.append((label, text.split("blocks")[1].split("edges")[0]))
    for label, t in texts[1:]:
        ctx.prove("same-blocks-section-in-every-iteration-order", _same_tokens(t, texts[0][1]), order=label, first=texts[0][1][:900], this=t[:900])


def _same_tokens(a, b, rtol=1e-9):
    """the same entries; numbers compared as reals (A1: the last digits of a float depend on the route of the calculation)"""
    ta, tb = a.split(), b.split()
    if len(ta) != len(tb):
        return False
    for x, y in zip(ta, tb):
        if x == y:
            continue
        try:
            fx, fy = float(x), float(y)
        except ValueError:
            return False
        if abs(fx - fy) > rtol * max(abs(fx), abs(fy)):
            return False
    return True


@proof("C02", "scenario/size-based-chops/written-moved-written", cases=list(__import__("contracts.spec.regrade", fromlist=["CASES"]).CASES), level="S", samples=1,
       functions=["classy_blocks.grading.chop:Chop.calculate", "classy_blocks.lists.block_list:BlockList.grade_blocks",
                  "classy_blocks.lists.block_list:BlockList.propagate_gradings"],
       note="executed contract (no symbolic content): size-based chops, write, move vertices so that the chopped edges change length, "
            "write again - propagation completes and every direction of a family gets the count derived from the chop at the "
            "geometry as it is now, i.e. what a freshly built model of the moved geometry gets (round 5: counts remembered on a Chop)")
def written_moved_written(ctx):
    from contracts.spec import regrade

    r = regrade.write_move_write(ctx.case)
    ctx.prove("first-write-succeeds", r["first"][1] is None, exc=repr(r["first"][1])[:200])
    text, exc = r["second"]
    ctx.prove("second-write-succeeds", exc is None, exc=repr(exc)[:200])
    if exc is None:
        ctx.prove("second-write/every-direction-defined", all(ax.is_defined for b in r["mesh"].blocks for ax in b.axes))
        ctx.prove("second-write/counts-are-those-derived-from-the-chops-at-the-moved-geometry",
                  [ax.count for b in r["mesh"].blocks for ax in b.axes] == [ax.count for b in r["fresh"].blocks for ax in b.axes])
        ctx.prove("second-write/same-file-as-a-fresh-model-of-the-moved-geometry", "".join(text.split()) == "".join(r["fresh_written"][0].split()))


@proof("C02", "scenario/multigrading-with-uniform-divisions/opposed-neighbour", cases=["chopped-first", "neighbour-first"], level="S", samples=1,
       functions=["classy_blocks.grading.grading:Grading.inverted", "classy_blocks.items.wires.manager:WirePropagateManager.copy_neighbours",
                  "classy_blocks.lists.block_list:BlockList.propagate_gradings"],
       note="executed contract: two divisions of unequal length and count, both with expansion 1, on a block whose un-chopped neighbour "
            "numbers its corners the other way round along that direction: every vertical edge of both blocks carries the divisions in the "
            "same physical order (round 5: 'uniform cells look the same from both ends')")
def multigrading_opposed(ctx):
    import classy_blocks as cb

    a = cb.Box([0.0, 0.0, 0.0], [1.0, 1.0, 1.0])
    b = cb.Loft(cb.Face([[1, 0, 1], [1, 1, 1], [2, 1, 1], [2, 0, 1]]), cb.Face([[1, 0, 0], [1, 1, 0], [2, 1, 0], [2, 0, 0]]))
    a.chop(0, count=2)
    a.chop(1, count=2)
    a.chop(2, length_ratio=0.25, count=2)
    a.chop(2, length_ratio=0.75, count=12)
    b.chop(1, count=3)      # its own axis 1 runs along x
    mesh = Mesh()
    for op in ([a, b] if ctx.case == "chopped-first" else [b, a]):
        mesh.add(op)
    mesh.assemble()
    _, exc = ctx.call(mesh.grade)
    ctx.prove("grading-succeeds", exc is None, exc=repr(exc)[:200])
    if exc is not None:
        return
    upward = [[0.25, 2, 1.0], [0.75, 12, 1.0]]
    ok, seen = True, []
    for blk in mesh.blocks:
        for w in blk.axes[2].wires:
            z0, z1 = float(w.vertices[0].position[2]), float(w.vertices[1].position[2])
            spec = [[float(s[0]), int(s[1]), float(s[2])] for s in w.grading.specification]
            want = upward if z1 > z0 else upward[::-1]
            seen.append((blk.index, z1 > z0, spec))
            if len(spec) != 2 or any(abs(x - y) > 1e-9 for s, t in zip(spec, want) for x, y in zip(s, t)):
                ok = False
    ctx.prove("every-vertical-edge-carries-the-divisions-in-the-same-physical-order", ok, seen=str(seen)[:400])
    ctx.prove("both-blocks-have-fourteen-cells-in-that-direction", all(blk.axes[2].count == 14 for blk in mesh.blocks))
