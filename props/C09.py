"""C09 — transforming or copying an entity equals transforming its output geometry."""
import math

import numpy as np

from classy_blocks.base import transforms as tr
from classy_blocks.construct import edges as E
from classy_blocks.construct.array import Array
from classy_blocks.construct.curves.analytic import CircleCurve, LineCurve
from classy_blocks.construct.curves.discrete import DiscreteCurve
from classy_blocks.construct.curves.interpolated import LinearInterpolatedCurve
from classy_blocks.construct.flat.face import Face
from classy_blocks.construct.operations.operation import Operation
from classy_blocks.construct.point import Point, Vector
from classy_blocks.items.edges.factory import factory
from classy_blocks.items.vertex import Vertex
from classy_blocks.util import functions as f
from contracts.spec import geom as G
from pyvc.harness import proof
from pyvc.sym import And, Not, Or

KINDS = ["translate", "rotate", "scale", "mirror"]
PT = "classy_blocks.construct.point:Point."
AR = "classy_blocks.construct.array:Array."
FN = "classy_blocks.util.functions:"


class Map:
    """An affine map given by the *user's* arguments (non-unit axis/normal, any origin), with its
    specification T(x), its linear part T_lin(v) and its length ratio."""

    def __init__(self, ctx, kind, tag=""):
        self.kind = kind
        self.ctx = ctx
        if kind == "translate":
            self.d = ctx.vec(tag + "d")
        elif kind == "rotate":
            self.axis = ctx.vec(tag + "k")
            ctx.assume(G.norm2(self.axis) > 0.01)
            self.angle = ctx.real(tag + "phi", lo=-6.2, hi=6.2)
            self.origin = ctx.vec(tag + "o")
            if ctx.symbolic:
                self.c, self.s = self.angle.cos(), self.angle.sin()
            else:
                self.c, self.s = math.cos(self.angle), math.sin(self.angle)
        elif kind == "scale":
            self.ratio = ctx.real(tag + "ratio", lo=0.05, hi=20)
            self.origin = ctx.vec(tag + "o")
        elif kind == "mirror":
            self.normal = ctx.vec(tag + "n")
            ctx.assume(G.norm2(self.normal) > 0.01)
            self.origin = ctx.vec(tag + "o")

    # specification
    def lin(self, v):
        v = np.asarray(v)
        if self.kind == "translate":
            return v
        if self.kind == "rotate":
            return G.rot(G.unit(self.axis), self.c, self.s, v)
        if self.kind == "scale":
            return v * self.ratio
        n = self.normal
        return v - n * (2 * G.dot(v, n) / G.dot(n, n))

    def T(self, x):
        x = np.asarray(x)
        if self.kind == "translate":
            return x + self.d
        return self.origin + self.lin(x - self.origin)

    @property
    def length_ratio(self):
        return self.ratio if self.kind == "scale" else 1

    # application through the library
    def apply(self, entity, default_origin=False):
        o = None if default_origin else self.origin if self.kind != "translate" else None
        if self.kind == "translate":
            return entity.translate(self.d)
        if self.kind == "rotate":
            return entity.rotate(self.angle, self.axis, o)
        if self.kind == "scale":
            return entity.scale(self.ratio, o)
        return entity.mirror(self.normal, o)

    def as_transformation(self):
        if self.kind == "translate":
            return tr.Translation(self.d)
        if self.kind == "rotate":
            return tr.Rotation(self.axis, self.angle, self.origin)
        if self.kind == "scale":
            return tr.Scaling(self.ratio, self.origin)
        return tr.Mirror(self.normal, self.origin)

    def args(self):
        return [getattr(self, n) for n in ("d", "axis", "origin", "normal") if hasattr(self, n)]


def snap(arrs):
    return [(a, np.array(a, dtype=object).copy()) for a in arrs]


def unchanged(ctx, snaps):
    return And([ctx.identical(x, y) for a, old in snaps for x, y in zip(np.asarray(a, dtype=object).flat, old.flat)])


# ------------------------------------------------------------------------------ T1 primitives
@proof("C09", "Point.transform", cases=KINDS, functions=[PT + "translate", PT + "rotate", PT + "scale", PT + "mirror", FN + "rotate",
                                                         FN + "scale", FN + "mirror", FN + "mirror_matrix"],
       uses=["functions.rotation_matrix (Rodrigues model, A2)"], samples=15)
def point_transform(ctx):
    m = Map(ctx, ctx.case)
    x = ctx.vec("x")
    p = Point(x)
    sn = snap(m.args() + [x])
    r = m.apply(p)
    ctx.prove("returns-self", r is p)
    ctx.prove("position-is-the-image", ctx.eq(p.position, m.T(x), tol=1e-6))
    ctx.prove("arguments-not-modified", unchanged(ctx, sn))


@proof("C09", "Array.transform", cases=KINDS, functions=[AR + "translate", AR + "rotate", AR + "scale", AR + "mirror"],
       uses=["functions.rotation_matrix (Rodrigues model, A2)"], samples=15)
def array_transform(ctx):
    m = Map(ctx, ctx.case)
    X = ctx.mat("x", 3)
    a = Array(X)
    sn = snap(m.args() + [X])
    r = m.apply(a)
    ctx.prove("returns-self", r is a)
    ctx.prove("every-point-is-the-image", ctx.eq(a.points, np.array([m.T(x) for x in X]), tol=1e-6))
    ctx.prove("arguments-not-modified", unchanged(ctx, sn))


@proof("C09", "functions.helpers/pure", cases=["rotate", "scale", "mirror"], functions=[FN + "rotate", FN + "scale", FN + "mirror"],
       samples=15)
def helpers_pure(ctx):
    kind = ctx.case
    m = Map(ctx, kind)
    x = ctx.vec("x")
    sn = snap(m.args() + [x])
    if kind == "rotate":
        r = f.rotate(x, m.angle, G.unit(m.axis) if ctx.symbolic else m.axis / np.linalg.norm(m.axis), m.origin)
    elif kind == "scale":
        r = f.scale(x, m.ratio, m.origin)
    else:
        r = f.mirror(x, m.normal, m.origin)
    ctx.prove("returns-the-image", ctx.eq(r, m.T(sn[-1][1]), tol=1e-6))
    ctx.prove("arguments-not-modified", unchanged(ctx, sn))
    ctx.prove("result-is-a-new-array", all(r is not a for a, _ in sn))


# ------------------------------------------------------------------------------ T2 edge data
@proof("C09", "EdgeData.transform", cases=[(k, e) for k in KINDS for e in ("arc", "origin", "spline", "angle", "project", "line")],
       functions=["classy_blocks.base.element:ElementBase.translate", "classy_blocks.base.element:ElementBase.rotate",
                  "classy_blocks.base.element:ElementBase.scale", "classy_blocks.base.element:ElementBase.mirror",
                  "classy_blocks.construct.edges:Angle.translate", "classy_blocks.construct.edges:Angle.scale",
                  "classy_blocks.construct.edges:Arc.parts", "classy_blocks.construct.edges:Origin.parts",
                  "classy_blocks.construct.edges:Angle.parts", "classy_blocks.construct.edges:OnCurve.parts"], samples=12)
def edge_data_transform(ctx):
    kind, ek = ctx.case
    m = Map(ctx, kind)
    if ek == "arc":
        x = ctx.vec("x")
        d = E.Arc(x)
        m.apply(d)
        ctx.prove("arc-point-is-the-image", ctx.eq(d.point.position, m.T(x), tol=1e-6))
    elif ek == "origin":
        x = ctx.vec("x")
        d = E.Origin(x, 1.0)
        m.apply(d)
        ctx.prove("origin-is-the-image", ctx.eq(d.origin.position, m.T(x), tol=1e-6))
        ctx.prove("flatness-kept", d.flatness == 1.0)
    elif ek == "spline":
        X = ctx.mat("x", 3)
        d = E.Spline(X)
        m.apply(d)
        ctx.prove("spline-points-are-the-images", ctx.eq(d.curve.array.points, np.array([m.T(x) for x in X]), tol=1e-6))
    elif ek == "angle":
        a = ctx.vec("a")
        ctx.assume(G.norm2(a) > 0.01)
        th = ctx.real("theta", lo=0.1, hi=3.0)
        d = E.Angle(th, a)
        m.apply(d)
        got = d.axis.components
        if kind == "scale":
            want = G.unit(a)          # a direction is not changed by a (positive) uniform scaling
        else:
            want = m.lin(G.unit(a))
        if kind == "mirror":
            ctx.prove("axis-reflected-not-displaced", Or(ctx.eq(got, want, tol=1e-6), ctx.eq(got, -want, tol=1e-6)))
            # a reflection reverses the sense of rotation: (axis, angle) -> (M a, -angle) or (-M a, angle)
            same = And(ctx.eq(got, want, tol=1e-6), ctx.eq(d.angle, -th))
            flipped = And(ctx.eq(got, -want, tol=1e-6), ctx.eq(d.angle, th))
            ctx.prove("sense-of-rotation-reversed-by-reflection", Or(same, flipped))
        else:
            ctx.prove("axis-direction-mapped-not-displaced", ctx.eq(got, want, tol=1e-6))
            ctx.prove("angle-kept", ctx.identical(d.angle, th))
        ctx.prove("axis-stays-unit", ctx.eq(G.norm2(got), 1, tol=1e-6))
    elif ek == "project":
        d = E.Project(["g1", "g2"])
        m.apply(d)
        ctx.prove("labels-kept", d.label == ["g1", "g2"])
    else:
        d = E.Line()
        r = m.apply(d)
        ctx.prove("line-stays-a-line", r is d and d.kind == "line")


# ------------------------------------------------------------------------------ T3 output geometry
def _arc_inputs(ctx):
    """End points of an arc constructed from a free centre C, an orthogonal frame given by a free
    quaternion (no square roots), a radius factor and the half sector angle."""
    C = ctx.vec("C")
    q = [ctx.real(f"q{i}", lo=-2, hi=2) for i in range(4)]
    n2 = q[0] * q[0] + q[1] * q[1] + q[2] * q[2] + q[3] * q[3]
    ctx.assume(n2 > 0.3)
    rho = ctx.real("rho", lo=0.05, hi=20)
    e1, e2, e3 = G.quat_frame(q)
    if not ctx.symbolic:
        e1, e2, e3 = e1.astype(float), e2.astype(float), e3.astype(float)
    r0, rperp = e1 * rho, e2 * rho
    h = ctx.real("half", lo=0.05, hi=1.5)   # half the sector angle
    if ctx.symbolic:
        ch, sh = h.cos(), h.sin()
    else:
        ch, sh = math.cos(h), math.sin(h)
    c, s = ch * ch - sh * sh, 2 * sh * ch
    p1 = C + r0
    p2 = C + r0 * c + rperp * s
    return C, e3, r0, h, p1, p2


GENS = ["translate", "rotx", "roty", "rotz", "scale", "mirrorx"]
NOTE_GEN = ("the affine maps in question (rigid motions, uniform scalings, reflections) are generated by translations, "
            "rotations about the three coordinate axes through the origin, scalings about the origin and one reflection; "
            "equivariance of the output function under each generator (all parameters symbolic) gives equivariance under "
            "the group (A4). That the library applies the map to the edge *data* correctly is the separate obligation "
            "EdgeData.transform (arbitrary axes/origins).")


class GenMap:
    def __init__(self, ctx, kind):
        self.kind = kind
        if kind == "translate":
            self.d = ctx.vec("gd")
        elif kind.startswith("rot"):
            phi = ctx.real("gphi", lo=-6.2, hi=6.2)
            self.c, self.s = (phi.cos(), phi.sin()) if ctx.symbolic else (math.cos(phi), math.sin(phi))
        elif kind == "scale":
            self.ratio = ctx.real("gratio", lo=0.05, hi=20)

    def lin(self, v):
        v = np.asarray(v)
        k = self.kind
        if k == "translate":
            return v
        if k == "scale":
            return v * self.ratio
        if k == "mirrorx":
            return np.array([-v[0], v[1], v[2]], dtype=v.dtype)
        a, b = {"rotx": (1, 2), "roty": (2, 0), "rotz": (0, 1)}[k]
        out = np.array(v, dtype=v.dtype).copy()
        out[a] = self.c * v[a] - self.s * v[b]
        out[b] = self.s * v[a] + self.c * v[b]
        return out

    def T(self, x):
        return self.lin(x) + self.d if self.kind == "translate" else self.lin(x)

    @property
    def ratio_(self):
        return self.ratio if self.kind == "scale" else 1


QUICK_GENS = ["translate", "scale", "mirrorx"]
ROT_GENS = ["rotx", "roty", "rotz"]
ANGLE_FUNCS = ["classy_blocks.items.edges.arcs.angle:arc_from_theta", "classy_blocks.items.edges.arcs.angle:AngleEdge.third_point",
               FN + "arc_mid", FN + "divide_arc"]
ORIGIN_FUNCS = ["classy_blocks.items.edges.arcs.origin:arc_from_origin", "classy_blocks.items.edges.arcs.origin:OriginEdge.third_point"]


@proof("C09", "AngleEdge/third-point-equivariant/rotations", cases=ROT_GENS, functions=ANGLE_FUNCS, samples=10, timeout=400,
       note=NOTE_GEN, thorough_only=True)
def angle_edge_equivariant_rot(ctx):
    angle_edge_equivariant(ctx)


@proof("C09", "OriginEdge/third-point-equivariant/rotations", cases=ROT_GENS, functions=ORIGIN_FUNCS, samples=10, timeout=400,
       note=NOTE_GEN, thorough_only=True)
def origin_edge_equivariant_rot(ctx):
    origin_edge_equivariant(ctx)


@proof("C09", "bounded/AngleEdge/third-point-equivariant/reflection", cases=["mirrorx"], functions=ANGLE_FUNCS, samples=40, level="B",
       note="bounded stand-in only: the polynomial identity for the reflected angle/axis arc did not close in the back ends")
def angle_edge_equivariant_mirror(ctx):
    angle_edge_equivariant(ctx)


@proof("C09", "AngleEdge/third-point-equivariant", cases=["translate", "scale"], functions=ANGLE_FUNCS, samples=10, timeout=150, note=NOTE_GEN)
def angle_edge_equivariant(ctx):
    g = GenMap(ctx, ctx.case)
    C, axis, r0, h, p1, p2 = _arc_inputs(ctx)
    theta = 2 * h
    au = f.unit_vector(axis)
    e0 = factory.create(Vertex(p1, 0), Vertex(p2, 1), E.Angle(theta, au))
    t0 = e0.third_point.position
    # image data: direction mapped by the linear part; a reflection reverses the sense of rotation
    au2 = g.lin(au)
    th2 = -theta if g.kind == "mirrorx" else theta
    e1 = factory.create(Vertex(g.T(p1), 0), Vertex(g.T(p2), 1), E.Angle(th2, au2))
    t1 = e1.third_point.position
    ctx.prove("third-point-of-image-is-image-of-third-point", ctx.eq(t1, g.T(t0), tol=1e-5))


@proof("C09", "OriginEdge/third-point-equivariant", cases=QUICK_GENS, functions=ORIGIN_FUNCS, samples=10, timeout=150, note=NOTE_GEN)
def origin_edge_equivariant(ctx):
    g = GenMap(ctx, ctx.case)
    C, axis, r0, h, p1, p2 = _arc_inputs(ctx)
    e0 = factory.create(Vertex(p1, 0), Vertex(p2, 1), E.Origin(C))
    t0 = e0.third_point.position
    e1 = factory.create(Vertex(g.T(p1), 0), Vertex(g.T(p2), 1), E.Origin(g.T(C)))
    t1 = e1.third_point.position
    ctx.prove("third-point-of-image-is-image-of-third-point", ctx.eq(t1, g.T(t0), tol=1e-5))


@proof("C09", "SplineEdge/points-and-length-equivariant", cases=KINDS,
       functions=["classy_blocks.items.edges.curve:SplineEdge.point_array", "classy_blocks.items.edges.curve:SplineEdge.length"],
       samples=10, timeout=150)
def spline_edge_equivariant(ctx):
    m = Map(ctx, ctx.case)
    p1, p2 = ctx.vec("p"), ctx.vec("q")
    X = ctx.mat("x", 2)
    d = E.Spline(X)
    e0 = factory.create(Vertex(p1, 0), Vertex(p2, 1), d)
    pts0, len0 = e0.point_array, e0.length
    d2 = E.Spline(X)
    m.apply(d2)
    e1 = factory.create(Vertex(m.T(p1), 0), Vertex(m.T(p2), 1), d2)
    ctx.prove("points-are-the-images", ctx.eq(e1.point_array, np.array([m.T(x) for x in pts0]), tol=1e-6))
    ctx.prove("length-scaled-by-the-ratio", ctx.eq(e1.length, len0 * m.length_ratio, tol=1e-6))


# ------------------------------------------------------------------------------ T4/T5 composites
def mk_face(ctx, tag):
    P = ctx.mat(tag, 4)
    return Face(P, [E.Arc(ctx.vec(tag + "a")), None, E.Spline(ctx.mat(tag + "s", 2)), E.Origin(ctx.vec(tag + "o"))]), P


def leaves(entity, seen=None, out=None):
    """All geometric leaves (Point / Array objects) reachable through .parts, with multiplicity."""
    out = [] if out is None else out
    for part in entity.parts:
        if part is entity:
            out.append(part)
        elif isinstance(part, (Point, Array)):
            out.append(part)
        else:
            leaves(part, seen, out)
    return out


def positions_of(leaf):
    return leaf.position if isinstance(leaf, Point) else leaf.points


@proof("C09", "Face-Operation.transform", cases=[(k, w, o) for k in KINDS for w in ("face", "operation") for o in ("given-origin", "default-origin")],
       functions=["classy_blocks.base.element:ElementBase.translate", "classy_blocks.base.element:ElementBase.rotate",
                  "classy_blocks.base.element:ElementBase.scale", "classy_blocks.base.element:ElementBase.mirror",
                  "classy_blocks.construct.flat.face:Face.parts", "classy_blocks.construct.flat.face:Face.center",
                  "classy_blocks.construct.operations.operation:Operation.parts", "classy_blocks.construct.operations.operation:Operation.center",
                  "classy_blocks.construct.operations.operation:Operation.mirror"], samples=8, timeout=200)
def composite_transform(ctx):
    kind, what, omode = ctx.case
    m = Map(ctx, kind)
    face, P = mk_face(ctx, "b")
    ent = face
    if what == "operation":
        top, _ = mk_face(ctx, "t")
        ent = Operation(face, top)
        ent.add_side_edge(1, E.Arc(ctx.vec("se")))
    lv = leaves(ent)
    ctx.prove("parts-reach-every-datum-exactly-once", len({id(x) for x in lv}) == len(lv))
    before = [np.array(positions_of(x), dtype=object).copy() for x in lv]
    if omode == "default-origin" and kind != "translate":
        # documented default: the entity's centre (rotate, scale) / the global origin (mirror)
        m.origin = np.array(ent.center) if kind in ("rotate", "scale") else np.zeros(3)
        m.apply(ent, default_origin=True)
    else:
        m.apply(ent)
    for i, x in enumerate(lv):
        want = m.T(before[i]) if before[i].ndim == 1 else np.array([m.T(r) for r in before[i]])
        ctx.prove(f"datum{i}-moved-to-its-image-once", ctx.eq(positions_of(x), want, tol=1e-5))
    if what == "operation" and kind == "mirror":
        ctx.prove("mirror-swaps-the-faces", ent.top_face is face)


@proof("C09", "transform-list/composition", cases=[("translate", "rotate", "scale"), ("rotate", "mirror", "translate"), ("scale", "rotate", "rotate"),
                                                    ("mirror", "scale", "translate")],
       functions=["classy_blocks.base.element:ElementBase.transform"], samples=8, timeout=200)
def transform_list(ctx):
    maps = [Map(ctx, k, tag=f"m{i}") for i, k in enumerate(ctx.case)]
    face, P = mk_face(ctx, "b")
    lv = leaves(face)
    before = [np.array(positions_of(x), dtype=object).copy() for x in lv]
    face.transform([m.as_transformation() for m in maps])

    def comp(x):
        for m in maps:
            x = m.T(x)
        return x

    for i, x in enumerate(lv):
        want = comp(before[i]) if before[i].ndim == 1 else np.array([comp(r) for r in before[i]])
        ctx.prove(f"datum{i}-is-the-composed-image", ctx.eq(positions_of(x), want, tol=1e-5))


@proof("C09", "copy/independent-and-equal", cases=["face", "operation", "spline", "angle"],
       functions=["classy_blocks.base.element:ElementBase.copy", "classy_blocks.construct.flat.face:Face.copy"], samples=6)
def copy_independent(ctx):
    what = ctx.case
    if what == "face":
        ent, _ = mk_face(ctx, "b")
    elif what == "operation":
        b, _ = mk_face(ctx, "b")
        t, _ = mk_face(ctx, "t")
        ent = Operation(b, t)
        ent.set_patch("top", "lid")
        ent.chop(0, count=5)
    elif what == "spline":
        ent = E.Spline(ctx.mat("x", 3))
    else:
        ent = E.Angle(ctx.real("th", lo=0.1, hi=3), ctx.vec("a"))
    cp = ent.copy()
    a, b = leaves(ent), leaves(cp)
    ctx.prove("same-structure", len(a) == len(b) and type(cp) is type(ent))
    ctx.prove("field-wise-equal", And([ctx.eq(positions_of(x), positions_of(y)) for x, y in zip(a, b)]))
    ctx.prove("no-shared-mutable-leaf", not ({id(x) for x in a} & {id(y) for y in b})
              and not ({id(positions_of(x)) for x in a} & {id(positions_of(y)) for y in b}))
    d = ctx.vec("d")
    old = [np.array(positions_of(x), dtype=object).copy() for x in a]
    cp.translate(d)
    ctx.prove("moving-the-copy-leaves-the-original", And([ctx.eq(positions_of(x), o) for x, o in zip(a, old)]))
    if what == "operation":
        ctx.prove("copy-keeps-patches-and-chops", cp.patch_names == ent.patch_names and len(cp.chops[0]) == 1 and cp.chops[0][0] is not ent.chops[0][0])


# ------------------------------------------------------------------------------ curves (bounded tier)
from classy_blocks.construct.curves.interpolated import SplineInterpolatedCurve  # noqa: E402


@proof("C09", "bounded/curves-transform", level="B", samples=12,
       cases=[(c, k, how) for c in ("linear", "spline", "discrete", "line", "circle") for k in KINDS for how in ("method", "list")],
       functions=["classy_blocks.construct.curves.interpolated:InterpolatedCurveBase.parts", "classy_blocks.construct.curves.interpolators:InterpolatorBase.invalidate",
                  "classy_blocks.construct.curves.analytic:CircleCurve.parts", "classy_blocks.base.element:ElementBase.transform"],
       note="bounded stand-in only (scipy interpolators are external): points of the transformed curve equal the images of the "
            "points of the original curve, for method calls and transformation lists, after the cache was filled")
def curves_transform(ctx):
    ck, kind, how = ctx.case
    rng = ctx.rng
    pts = np.cumsum(np.array([[rng.uniform(0.2, 1.5), rng.uniform(-1, 1), rng.uniform(-1, 1)] for _ in range(5)]), axis=0)
    if ck == "linear":
        curve, ts = LinearInterpolatedCurve(pts), [0.0, 0.13, 0.5, 0.77, 1.0]
    elif ck == "spline":
        curve, ts = SplineInterpolatedCurve(pts), [0.0, 0.13, 0.5, 0.77, 1.0]
    elif ck == "discrete":
        curve, ts = DiscreteCurve(pts), [0, 1, 2, 3, 4]
    elif ck == "line":
        curve, ts = LineCurve(pts[0], pts[1]), [0.0, 0.3, 1.0]
    else:
        curve, ts = CircleCurve(pts[0], pts[1], [rng.uniform(-1, 1), rng.uniform(-1, 1), 2.0]), [0.0, 0.7, 2.0, 5.0]
        # normal must be perpendicular to the radius for a circle
        r = pts[1] - pts[0]
        n = np.cross(r, [rng.uniform(-1, 1), rng.uniform(-1, 1), 2.0])
        curve = CircleCurve(pts[0], pts[1], n)
    m = Map(ctx, kind)
    before = [np.array(curve.get_point(t), dtype=float) for t in ts]   # also fills any cached interpolant
    len0 = curve.length
    if how == "method":
        m.apply(curve)
    else:
        curve.transform([m.as_transformation()])
    after = [np.array(curve.get_point(t), dtype=float) for t in ts]
    ctx.prove("points-are-the-images", all(np.allclose(a, m.T(b), atol=1e-6 * (1 + np.abs(b).max())) for a, b in zip(after, before)))
    ctx.prove("length-scaled-by-the-ratio", abs(curve.length - len0 * m.length_ratio) <= 1e-3 * (1 + abs(len0)))


# ------------------------------------------------------------------------------ whole operations from the library's constructors
def _written_edges(op):
    """What a mesh made of this one operation writes for its curved edges: (corner positions, kind, derived points)."""
    from classy_blocks.mesh import Mesh

    mesh = Mesh()
    mesh.add(op)
    mesh.assemble()
    out = []
    for e in mesh.edge_list.edges:
        rec = {"kind": e.kind, "p1": np.asarray(e.vertex_1.position, dtype=float), "p2": np.asarray(e.vertex_2.position, dtype=float)}
        if e.kind in ("arc", "origin", "angle"):
            rec["pts"] = [np.asarray(e.third_point.position, dtype=float)]
        elif e.kind in ("spline", "polyLine"):
            rec["pts"] = [np.asarray(p, dtype=float) for p in e.point_array]
        else:
            rec["pts"] = []
        out.append(rec)
    return [np.asarray(p, dtype=float) for p in op.point_array], out


def _constructed(kind, rng):
    import classy_blocks as cb

    u = rng.uniform
    base = cb.Face([[0.5, 0.1, 0.0], [1.6, 0.0, 0.1], [1.7, 1.1, 0.0], [0.6, 1.0, -0.1]])
    if kind == "revolve":
        return cb.Revolve(base, u(0.4, 1.3), [0.1, 1.0, 0.2], [-0.5, 0.0, 0.3])
    if kind == "wedge":
        return cb.Wedge(cb.Face([[0, 0.5, 0], [1, 0.5, 0], [1, 1.2, 0], [0, 1.2, 0]]), u(0.05, 0.2))
    if kind == "extrude-with-arcs":
        f_ = cb.Face([[0, 0, 0], [1, 0, 0], [1, 1, 0], [0, 1, 0]], [cb.Arc([0.5, -0.2, 0]), cb.Origin([1.9, 0.5, 0]), cb.Angle(u(0.4, 1.2), [0, 0, 1]), cb.Spline([[0.1, 0.7, 0], [-0.1, 0.3, 0]])])
        return cb.Extrude(f_, [0.1, 0.2, u(0.8, 1.5)])
    f1 = cb.Face([[0, 0, 0], [1, 0, 0], [1, 1, 0], [0, 1, 0]], [cb.Arc([0.5, -0.2, 0]), None, cb.PolyLine([[0.8, 1.1, 0], [0.3, 1.2, 0]]), None])
    f2 = cb.Face([[0, 0, 1], [1.2, 0, 1.1], [1.1, 1.3, 1.2], [0, 1, 1]])
    loft = cb.Loft(f1, f2)
    loft.add_side_edge(0, cb.Arc([-0.2, -0.1, 0.5]))
    loft.add_side_edge(2, cb.Angle(u(0.3, 0.9), [1.0, -1.0, 0.2]))
    return loft


@proof("C09", "bounded/constructed-operations-transform", level="B", samples=10,
       cases=[(c, k) for c in ("revolve", "wedge", "extrude-with-arcs", "loft-with-side-edges") for k in KINDS],
       functions=["classy_blocks.construct.operations.revolve:Revolve.__init__", "classy_blocks.construct.operations.operation:Operation.parts",
                  "classy_blocks.base.element:ElementBase.transform", "classy_blocks.construct.edges:Angle.rotate"],
       note="bounded stand-in: operations made by the library's own constructors (edge data possibly shared between edges) are transformed "
            "as a whole; the corner points and every derived arc / spline point of the one-block mesh are the images of those of the "
            "untransformed operation.  Reflections of angle-based edges are left out (listed known finding: sense of rotation)")
def constructed_operations(ctx):
    ck, kind = ctx.case
    rng = ctx.rng
    state = rng.getstate()
    op0 = _constructed(ck, rng)
    rng.setstate(state)
    op1 = _constructed(ck, rng)
    m = Map(ctx, kind)
    pts0, edges0 = _written_edges(op0)
    m.apply(op1)
    pts1, edges1 = _written_edges(op1)
    scale = 1 + max(np.abs(p).max() for p in pts0)
    img = lambda x: np.asarray(m.T(x), dtype=float)
    if kind == "mirror":   # an operation stays right-handed under a reflection by swapping its two faces
        pts0 = pts0[4:] + pts0[:4]
    ctx.prove("corner-points-are-the-images", all(np.allclose(b, img(a), atol=1e-7 * scale) for a, b in zip(pts0, pts1)))
    if kind == "mirror":
        # mirror() also swaps the faces: compare edges as sets keyed by their end points
        edges0 = [e for e in edges0 if e["kind"] != "angle"]
    ok, missing = True, []
    for e in edges0:
        a, b = img(e["p1"]), img(e["p2"])
        match = [f_ for f_ in edges1 if f_["kind"] == e["kind"] and ((np.allclose(f_["p1"], a, atol=1e-7 * scale) and np.allclose(f_["p2"], b, atol=1e-7 * scale))
                                                                      or (np.allclose(f_["p1"], b, atol=1e-7 * scale) and np.allclose(f_["p2"], a, atol=1e-7 * scale)))]
        if not match:
            ok = False
            missing.append((e["kind"], e["p1"].round(3).tolist()))
            continue
        f_ = match[0]
        want = [img(p) for p in e["pts"]]
        got = f_["pts"] if np.allclose(f_["p1"], a, atol=1e-7 * scale) else f_["pts"][::-1]
        if len(got) != len(want) or not all(np.allclose(x, y, atol=1e-6 * scale) for x, y in zip(got, want)):
            ok = False
            missing.append((e["kind"], "points differ", [x.round(4).tolist() for x in got[:2]], [y.round(4).tolist() for y in want[:2]]))
    ctx.prove("every-curved-edge-of-the-mesh-is-the-image-of-the-originals", ok, detail=missing[:3])
    ctx.prove("same-number-of-curved-edges", len(edges1) >= len(edges0))


def _written_shape(entity):
    from classy_blocks.mesh import Mesh

    mesh = Mesh()
    mesh.add(entity)
    mesh.assemble()
    edges = []
    for e in mesh.edge_list.edges:
        rec = {"kind": e.kind, "p1": np.asarray(e.vertex_1.position, dtype=float), "p2": np.asarray(e.vertex_2.position, dtype=float)}
        if e.kind in ("arc", "origin", "angle"):
            rec["pts"] = [np.asarray(e.third_point.position, dtype=float)]
        elif e.kind in ("spline", "polyLine"):
            rec["pts"] = [np.asarray(p, dtype=float) for p in e.point_array]
        else:
            rec["pts"] = []
        edges.append(rec)
    return [np.asarray(p, dtype=float) for op in entity.operations for p in op.point_array], edges


def _shape(kind):
    import classy_blocks as cb

    c, e1, e2, n = np.array([0.4, -0.3, 0.2]), np.array([1.0, 0.0, 0.0]), np.array([0.0, 1.0, 0.0]), np.array([0.0, 0.0, 1.0])
    if kind == "extruded-ring":
        return cb.ExtrudedRing(c, c + n * 1.2, c + e1, 0.5, n_segments=8)
    if kind == "cylinder":
        return cb.Cylinder(c, c + n * 1.2, c + e1)
    cls = {"quarter-spline-ring": cb.QuarterSplineRing, "half-spline-ring": cb.HalfSplineRing, "spline-ring": cb.SplineRing, "spline-disk": cb.SplineDisk}[kind]
    args = [c, c + 1.4 * e1, c + e2, 0.3, 0.2] + ([0.3, 0.15] if kind.endswith("ring") else [])
    return cb.ExtrudedShape(cls(*args), 0.9)


@proof("C09", "bounded/constructed-shapes-transformed-twice", level="B", samples=4,
       cases=[(c, k) for c in ("extruded-ring", "cylinder", "quarter-spline-ring", "half-spline-ring", "spline-ring", "spline-disk") for k in ("rotate", "scale")],
       functions=["classy_blocks.base.element:ElementBase.transform", "classy_blocks.construct.flat.sketches.spline_round:QuarterSplineRing.parts",
                  "classy_blocks.construct.flat.sketches.annulus:Annulus.__init__", "classy_blocks.construct.flat.sketch:Sketch.center"],
       note="bounded stand-in: shapes built by the library (sketch edge data possibly shared between faces) are translated and then rotated / scaled "
            "about their own centre (the default origin); corner points and every derived arc / spline point of the mesh are the images")
def constructed_shapes(ctx):
    ck, kind = ctx.case
    rng = ctx.rng
    s0, s1 = _shape(ck), _shape(ck)
    pts0, edges0 = _written_shape(s0)
    d = np.array([rng.uniform(-2, 2) for _ in range(3)])
    centre0 = np.mean(pts0, axis=0) if not hasattr(s0, "center") else np.asarray(s0.center, dtype=float)
    s1.translate(d)
    if kind == "rotate":
        ang, ax = rng.uniform(0.3, 2.5), np.array([rng.uniform(-1, 1), rng.uniform(-1, 1), rng.uniform(0.2, 1)])
        s1.rotate(ang, ax)                     # about the shape's own centre
        c_, s_ = math.cos(ang), math.sin(ang)
        lin = lambda v: G.rot(ax / np.linalg.norm(ax), c_, s_, v)
    else:
        ratio = rng.uniform(0.5, 2)
        s1.scale(ratio)
        lin = lambda v: v * ratio
    c1 = np.asarray(s1.center, dtype=float) if hasattr(s1, "center") else None
    pts1, edges1 = _written_shape(s1)
    # the centre the second transformation used is the image of the original centre: find it from the data (it is the fixed point)
    want_c = centre0 + d
    img = lambda x: want_c + np.asarray(lin(np.asarray(x, dtype=float) + d - want_c), dtype=float)
    scale = 1 + max(np.abs(p).max() for p in pts0)
    ctx.prove("corner-points-are-the-images", all(np.allclose(b, img(a), atol=1e-6 * scale) for a, b in zip(pts0, pts1)),
              worst=float(max(np.linalg.norm(b - img(a)) for a, b in zip(pts0, pts1))))
    ok, detail = True, []
    for e in edges0:
        a, b = img(e["p1"]), img(e["p2"])
        match = [f_ for f_ in edges1 if f_["kind"] == e["kind"] and ((np.allclose(f_["p1"], a, atol=1e-6 * scale) and np.allclose(f_["p2"], b, atol=1e-6 * scale))
                                                                      or (np.allclose(f_["p1"], b, atol=1e-6 * scale) and np.allclose(f_["p2"], a, atol=1e-6 * scale)))]
        if not match:
            ok = False
            detail.append((e["kind"], "no edge between the images of its end points"))
            continue
        f_ = match[0]
        want = [img(p) for p in e["pts"]]
        got = f_["pts"] if np.allclose(f_["p1"], a, atol=1e-6 * scale) else f_["pts"][::-1]
        if len(got) != len(want) or not all(np.allclose(x, y, atol=1e-5 * scale) for x, y in zip(got, want)):
            ok = False
            detail.append((e["kind"], [x.round(4).tolist() for x in got[:1]], [y.round(4).tolist() for y in want[:1]]))
    ctx.prove("every-curved-edge-of-the-mesh-is-the-image-of-the-originals", ok, detail=detail[:3])


def _sketch(kind):
    import classy_blocks as cb
    from classy_blocks.construct.flat.sketches.annulus import Annulus

    c, e1, e2, n = np.array([0.4, -0.3, 0.2]), np.array([1.0, 0.0, 0.0]), np.array([0.0, 1.0, 0.0]), np.array([0.0, 0.0, 1.0])
    if kind == "annulus":
        return Annulus(c, c + e1, n, 0.5, 8)
    if kind in ("one-core-disk", "four-core-disk", "half-disk"):
        return {"one-core-disk": cb.OneCoreDisk, "four-core-disk": cb.FourCoreDisk, "half-disk": cb.HalfDisk}[kind](c, c + e1, n)
    if kind == "oval":
        return cb.Oval(c - e1, c + e1, n, 0.6)
    cls = {"quarter-spline-ring": cb.QuarterSplineRing, "half-spline-ring": cb.HalfSplineRing, "spline-ring": cb.SplineRing,
           "spline-disk": cb.SplineDisk, "quarter-spline-disk": cb.QuarterSplineDisk}[kind]
    return cls(*([c, c + 1.4 * e1, c + e2, 0.3, 0.2] + ([0.3, 0.15] if kind.endswith("ring") else [])))


def _sketch_data(sketch):
    pts = [np.asarray(p, dtype=float) for f_ in sketch.faces for p in f_.point_array]
    extra = []
    for f_ in sketch.faces:
        for d in f_.edges:
            if d.kind == "spline":
                extra += [np.asarray(p, dtype=float) for p in d.curve.discretize()]
            elif d.kind == "origin":
                extra.append(np.asarray(d.origin.position, dtype=float))
            elif d.kind == "arc":
                extra.append(np.asarray(d.point.position, dtype=float))
    return pts, extra


@proof("C09", "bounded/sketches-transformed-twice", level="B", samples=4,
       cases=[(c, k) for c in ("annulus", "one-core-disk", "four-core-disk", "half-disk", "oval", "quarter-spline-disk", "spline-disk", "quarter-spline-ring",
                               "half-spline-ring", "spline-ring") for k in ("rotate", "scale", "list")],
       functions=["classy_blocks.base.element:ElementBase.transform", "classy_blocks.construct.flat.sketch:Sketch.center", "classy_blocks.construct.flat.sketch:Sketch.parts",
                  "classy_blocks.construct.flat.sketches.spline_round:QuarterSplineRing.parts", "classy_blocks.construct.flat.sketches.disk:DiskBase.center"],
       note="bounded stand-in: every sketch class is translated and then rotated / scaled about its own centre (default origin), by method calls "
            "and by a transformation list: face points, spline edge points and arc centres are the images under the composition")
def sketches_twice(ctx):
    ck, kind = ctx.case
    rng = ctx.rng
    s0, s1 = _sketch(ck), _sketch(ck)
    pts0, extra0 = _sketch_data(s0)
    c0 = np.asarray(s0.center, dtype=float).copy()
    d = np.array([rng.uniform(-2, 2) for _ in range(3)])
    ang, ax = rng.uniform(0.3, 2.5), np.array([rng.uniform(-1, 1), rng.uniform(-1, 1), rng.uniform(0.2, 1)])
    ratio = rng.uniform(0.5, 2)
    c_, s_ = math.cos(ang), math.sin(ang)
    if kind == "rotate":
        s1.translate(d).rotate(ang, ax)
        lin = lambda v: G.rot(ax / np.linalg.norm(ax), c_, s_, v)
    elif kind == "scale":
        s1.translate(d).scale(ratio)
        lin = lambda v: v * ratio
    else:
        s1.transform([tr.Translation(d), tr.Rotation(ax, ang), tr.Scaling(ratio)])   # origins default to the centre at that moment
        lin = lambda v: G.rot(ax / np.linalg.norm(ax), c_, s_, v) * ratio
    c1 = c0 + d
    img = lambda x: c1 + np.asarray(lin(np.asarray(x, dtype=float) + d - c1), dtype=float)
    pts1, extra1 = _sketch_data(s1)
    scale = 1 + max(np.abs(p).max() for p in pts0)
    ctx.prove("face-points-are-the-images", len(pts0) == len(pts1) and all(np.allclose(b, img(a), atol=1e-6 * scale) for a, b in zip(pts0, pts1)))
    ctx.prove("edge-data-are-the-images", len(extra0) == len(extra1) and all(np.allclose(b, img(a), atol=1e-5 * scale) for a, b in zip(extra0, extra1)))
    ctx.prove("centre-is-the-image-of-the-centre", bool(np.allclose(np.asarray(s1.center, dtype=float), c1, atol=1e-6 * scale)), got=np.asarray(s1.center, dtype=float).tolist(), want=c1.tolist())
