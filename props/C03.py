"""C03 — cell count and expansion ratio obey the geometric-progression law."""
import math

import numpy as np

from classy_blocks.grading import chop as chop_mod
from classy_blocks.grading import relations as rel
from classy_blocks.grading.chop import Chop, ChopRelation
from classy_blocks.grading.grading import Grading
from pyvc.harness import proof
from pyvc.sym import And, Not, Or

R = "classy_blocks.grading.relations:"
PARAMS = ["start_size", "c2c_expansion", "count", "end_size", "total_expansion"]


def gp_sum(s, c, n):
    """Length covered by n cells, first of size s, each c times the previous (blockMesh's law)."""
    return s * (1 - c ** n) / (1 - c)


# ------------------------------------------------------------------------------ relations (algebra)
@proof("C03", "relations/start_size-from-count-and-ratio", cases=["ratio!=1", "ratio==1"], functions=[R + "get_start_size__count__c2c_expansion"],
       note="c**n with symbolic integer n is an opaque power atom; the identity is blockMesh's geometric sum")
def start_from_count_c2c(ctx):
    L = ctx.real("L", lo=0.001, hi=1000)
    n = ctx.int("n", 1, 200)
    if ctx.case == "ratio==1":
        s = rel.get_start_size__count__c2c_expansion(L, n, 1.0)
        ctx.prove("uniform-cells-fill-the-length", ctx.eq(s * n, L))
    else:
        c = ctx.real("c", lo=0.5, hi=2)
        ctx.assume(Or(c > 1.001, c < 0.999))
        s = rel.get_start_size__count__c2c_expansion(L, n, c)
        ctx.prove("geometric-sum-fills-the-length", ctx.eq(gp_sum(s, c, n), L, tol=1e-9))


@proof("C03", "relations/size-and-total-expansion", functions=[R + "get_start_size__end_size__total_expansion", R + "get_end_size__start_size__total_expansion",
                                                               R + "get_total_expansion__start_size__end_size"])
def sizes_and_expansion(ctx):
    L = ctx.real("L", lo=0.001, hi=1000)
    s, e = ctx.real("s", lo=1e-5, hi=1000), ctx.real("e", lo=1e-5, hi=1000)
    E = rel.get_total_expansion__start_size__end_size(L, s, e)
    ctx.prove("total-expansion-is-last-over-first", ctx.eq(E * s, e))
    ctx.prove("end-size-from-start-and-expansion", ctx.eq(rel.get_end_size__start_size__total_expansion(L, s, E), e))
    ctx.prove("start-size-from-end-and-expansion", ctx.eq(rel.get_start_size__end_size__total_expansion(L, e, E), s))


@proof("C03", "relations/total-and-cell-to-cell-expansion", functions=[R + "get_total_expansion__count__c2c_expansion", R + "get_c2c_expansion__count__total_expansion"],
       note="E = c^(n-1) and c = E^(1/(n-1)): stated through the power atoms the code builds")
def total_and_c2c(ctx):
    L = ctx.real("L", lo=0.001, hi=1000)
    n = ctx.int("n", 2, 200)
    c = ctx.real("c", lo=0.5, hi=2)
    E = rel.get_total_expansion__count__c2c_expansion(L, n, c)
    ctx.prove("total-expansion-is-ratio-to-the-n-minus-1", ctx.eq(E, c ** (n - 1)))
    E2 = ctx.real("E", lo=0.01, hi=100)
    c2 = rel.get_c2c_expansion__count__total_expansion(L, n, E2)
    ctx.prove("ratio-is-the-n-minus-1-th-root", ctx.eq(c2, E2 ** (1 / (n - 1)), tol=1e-9))
    if not ctx.symbolic:
        ctx.prove("root-and-power-are-inverse", abs(rel.get_total_expansion__count__c2c_expansion(L, n, c2) - E2) <= 1e-9 * E2)
    _, exc = ctx.call(rel.get_c2c_expansion__count__total_expansion, L, 1, E2)
    ctx.prove("one-cell-has-no-ratio", isinstance(exc, ValueError))


@proof("C03", "relations/validators", cases=["length", "start_size", "end_size", "c2c-zero", "total-zero", "count"],
       functions=[R + "_validate_length", R + "_validate_start_end_size", R + "_validate_c2c_expansion", R + "_validate_total_expansion", R + "_validate_count"])
def validators(ctx):
    k = ctx.case
    x = ctx.real("x", lo=-5, hi=5)
    if k == "length":
        _, exc = ctx.call(rel.get_end_size__start_size__total_expansion, x, 1.0, 1.0)
        ctx.prove("non-positive-length-rejected", Or(x > 0, isinstance(exc, ValueError)))
        ctx.prove("positive-length-accepted", Or(x <= 0, exc is None))
    elif k in ("start_size", "end_size"):
        args = (1.0, x, 2.0) if k == "start_size" else (1.0, 0.5, x)
        _, exc = ctx.call(rel.get_total_expansion__start_size__end_size, *args)
        ctx.prove("non-positive-size-rejected", Or(x > 0, isinstance(exc, ValueError)))
        ctx.prove("positive-size-accepted", Or(x <= 0, exc is None))
    elif k == "c2c-zero":
        _, exc = ctx.call(rel.get_count__start_size__c2c_expansion, 1.0, 0.1, 0.0)
        ctx.prove("zero-ratio-rejected", isinstance(exc, ValueError))
    elif k == "total-zero":
        _, exc = ctx.call(rel.get_start_size__end_size__total_expansion, 1.0, 0.1, 0.0)
        ctx.prove("zero-total-expansion-rejected", isinstance(exc, ValueError))
    else:
        n = ctx.int("n", -3, 6)
        _, exc = ctx.call(rel.get_start_size__count__c2c_expansion, 1.0, n, 1.0)
        ctx.prove("count-below-one-rejected", Or(n >= 1, isinstance(exc, ValueError)))
        ctx.prove("count-at-least-one-accepted", Or(n < 1, exc is None))


class _Root:
    """scipy.optimize.brentq as an assumed external (A2): records the equation it is given and
    returns an arbitrary value from the bracket (the root, by assumption)."""

    def __init__(self, ctx):
        self.ctx = ctx
        self.calls = []

    def __call__(self, fun, a, b, *args, **kw):
        r = self.ctx.real(f"root{len(self.calls)}")
        self.ctx.assume(And(r >= a, r <= b) if not isinstance(a <= b, bool) or a <= b else And(r >= b, r <= a))
        self.calls.append((fun, a, b, r))
        return r


@proof("C03", "relations/root-finding-equations", cases=["c2c-from-count-start", "c2c-from-count-end"],
       functions=[R + "get_c2c_expansion__count__start_size", R + "get_c2c_expansion__count__end_size"],
       uses=["scipy.optimize.brentq (assumed external: returns a root of the function it is given inside the bracket)"],
       note="what is proved: the function handed to the root finder is blockMesh's geometric-sum equation for the given size, "
            "and the bracket excludes ratio 1 on the correct side")
def root_equations(ctx):
    if not ctx.symbolic:
        # natively: the real brentq; the realised size must be the given one
        L = ctx.real("L", lo=0.01, hi=100)
        n = ctx.int("n", 2, 60)
        frac = ctx.real("frac", lo=0.02, hi=0.9)
        size = L * frac * 2 / n if ctx.rng.random() < 0.5 else L / n * ctx.rng.uniform(0.3, 3)
        ctx.assume(0 < size < L and abs(n * size - L) / L > 1e-3)
        if ctx.case == "c2c-from-count-start":
            c, exc = ctx.call(rel.get_c2c_expansion__count__start_size, L, n, size)
            if exc is None:
                ctx.prove("realised-first-cell-is-the-given-size", abs(L * (1 - c) / (1 - c ** n) - size) <= 1e-7 * size, c=c)
        else:
            c, exc = ctx.call(rel.get_c2c_expansion__count__end_size, L, n, size)
            if exc is None:
                s0 = L * (1 - c) / (1 - c ** n)
                ctx.prove("realised-last-cell-is-the-given-size", abs(s0 * c ** (n - 1) - size) <= 1e-7 * size, c=c)
        return
    L = ctx.real("L", lo=0.001, hi=1000)
    n = ctx.int("n", 2, 200)
    size = ctx.real("size", lo=1e-5, hi=1000)
    ctx.assume(size < L)
    root = _Root(ctx)
    start_case = ctx.case == "c2c-from-count-start"
    fn = rel.get_c2c_expansion__count__start_size if start_case else rel.get_c2c_expansion__count__end_size

    class _FakeScipyOptimize:
        brentq = staticmethod(root)

    class _FakeScipy:
        optimize = _FakeScipyOptimize

    with ctx.stub(rel, "scipy", _FakeScipy):
        c, exc = ctx.call(fn, L, n, size)
    if exc is not None:
        ctx.prove("rejection-is-a-value-error", isinstance(exc, ValueError))
        return
    if not root.calls:
        ctx.prove("ratio-one-returned-only-for-uniform-cells", ctx.eq(c, 1))
        return
    fun, a, b, r = root.calls[0]
    x = ctx.real("probe", lo=0.01, hi=10)
    ctx.assume(Or(x > 1.0001, x < 0.9999))
    if start_case:
        want = gp_sum(1, x, n) - L / size
    else:
        want = gp_sum(1, x, n) / x ** (n - 1) - L / size
    ctx.prove("root-finder-is-given-the-geometric-sum-equation", ctx.eq(fun(x), want, tol=1e-9))
    ctx.prove("returned-ratio-is-the-root", c is r)


# ------------------------------------------------------------------------------ closure plan of Chop.calculate
PAIRS = [(a, b) for i, a in enumerate(PARAMS) for b in PARAMS[i + 1:]]


@proof("C03", "Chop.calculate/closure-plan", cases=[f"{a}+{b}" for a, b in PAIRS] + ["count-only", "nothing", "start_size-only"],
       functions=["classy_blocks.grading.chop:Chop.calculate", "classy_blocks.grading.chop:Chop.__post_init__",
                  "classy_blocks.grading.chop:ChopRelation.get_possible_combinations", "classy_blocks.grading.chop:ChopRelation.from_function"],
       uses=["the twelve relations (stubs: each returns a fresh value and records which inputs it was given)"],
       note="exhaustive over the 10 parameter pairs; relation bodies are their own obligations")
def closure_plan(ctx):
    given = ctx.case.split("+") if "+" in ctx.case else {"count-only": ["count"], "nothing": [], "start_size-only": ["start_size"]}[ctx.case]
    vals = {"start_size": 0.1, "c2c_expansion": 1.1, "count": 7, "end_size": 0.3, "total_expansion": 2.5}
    kwargs = {k: vals[k] for k in given}
    chop = Chop(**kwargs)
    log = []
    ChopRelation.get_possible_combinations.cache_clear()
    real_funcs = rel.get_calculation_functions()

    def make(name):
        def stub(length, p1, p2):
            out = name.split("__")[0][4:]
            log.append((out, name))
            return {"count": 9, "start_size": 0.11, "end_size": 0.31, "c2c_expansion": 1.11, "total_expansion": 2.51}[out]
        stub.__name__ = name
        return stub

    stubs = {name: make(name) for name in real_funcs}
    with ctx.stub(rel, "get_calculation_functions", lambda: stubs, only_symbolic=False):
        ChopRelation.get_possible_combinations.cache_clear()
        res, exc = ctx.call(chop.calculate, 1.0)
    ChopRelation.get_possible_combinations.cache_clear()
    n_given = len(given) + (1 if len(given) < 2 and "c2c_expansion" not in given else 0)
    if n_given < 2:
        ctx.prove("fewer-than-two-parameters-rejected", isinstance(exc, ValueError), exc=repr(exc))
        return
    ctx.prove("terminates-with-all-five-values", exc is None and all(chop.results[k] is not None for k in PARAMS), exc=repr(exc))
    if exc is None:
        ctx.prove("each-missing-value-computed-exactly-once", sorted(o for o, _ in log) == sorted(set(PARAMS) - set(given) - ({"c2c_expansion"} if len(given) < 2 else set())))
        ctx.prove("given-values-returned-unchanged", all(chop.results[k] == vals[k] for k in given))
        ctx.prove("count-is-an-integer-at-least-one", isinstance(res[0], int) and res[0] >= 1 and chop.results["count"] == res[0])
        ctx.prove("returns-count-and-total-expansion", res == (chop.results["count"], chop.results["total_expansion"]))
        ctx.prove("twelve-relations-available", len(real_funcs) == 12)


# ------------------------------------------------------------------------------ inversion
@proof("C03", "Chop.invert-Grading.inverted", functions=["classy_blocks.grading.chop:Chop.invert", "classy_blocks.grading.grading:Grading.inverted",
                                                          "classy_blocks.grading.chop:Chop.copy_preserving"])
def inversion(ctx):
    s, e = ctx.real("s", lo=1e-4, hi=10), ctx.real("e", lo=1e-4, hi=10)
    c, E = ctx.real("c", lo=0.5, hi=2), ctx.real("E", lo=0.01, hi=100)
    ch = Chop(start_size=s, end_size=e, c2c_expansion=c, total_expansion=E, count=5, length_ratio=0.3)
    ch.invert()
    ctx.prove("start-and-end-swapped", ctx.identical(ch.start_size, e) and ctx.identical(ch.end_size, s))
    ctx.prove("ratios-reciprocal", ctx.eq(ch.c2c_expansion * c, 1) and ctx.eq(ch.total_expansion * E, 1))
    ctx.prove("count-and-length-ratio-kept", ch.count == 5 and ch.length_ratio == 0.3)
    n1, n2 = ctx.int("n1", 1, 100), ctx.int("n2", 1, 100)
    E1, E2 = ctx.real("E1", lo=0.01, hi=100), ctx.real("E2", lo=0.01, hi=100)
    g = Grading(1.0)
    g.specification = [[0.25, n1, E1], [0.75, n2, E2]]
    gi = g.inverted
    ctx.prove("sections-reversed-with-reciprocal-expansion",
              len(gi.specification) == 2 and gi.specification[0][0] == 0.75 and gi.specification[1][0] == 0.25
              and ctx.identical(gi.specification[0][1], n2) and ctx.identical(gi.specification[1][1], n1)
              and ctx.eq(gi.specification[0][2] * E2, 1) and ctx.eq(gi.specification[1][2] * E1, 1))
    ctx.prove("same-total-count", ctx.eq(gi.count, g.count))
    ctx.prove("original-untouched", g.specification[0][0] == 0.25 and ctx.identical(g.specification[0][2], E1) and gi is not g)
    ctx.prove("twice-inverted-is-the-original", And([ctx.eq(a, b) for x, y in zip(gi.inverted.specification, g.specification) for a, b in zip(x, y)]))


# ------------------------------------------------------------------------------ the law on real floats (bounded tier)
def realised(L, n, E):
    """first size, last size, ratio of n cells with total expansion E on length L"""
    if n == 1:
        return L, L, 1.0
    c = E ** (1.0 / (n - 1))
    if abs(c - 1) < 1e-12:
        return L / n, L / n, 1.0
    s = L * (1 - c) / (1 - c ** n)
    return s, s * E, c


@proof("C03", "bounded/Chop.calculate-obeys-the-law", cases=[f"{a}+{b}" for a, b in PAIRS] + ["count-only"], level="B", samples=150,
       functions=["classy_blocks.grading.chop:Chop.calculate"] + [R + n for n in (
           "get_count__start_size__c2c_expansion", "get_count__end_size__c2c_expansion", "get_count__total_expansion__c2c_expansion",
           "get_count__total_expansion__start_size", "get_c2c_expansion__count__start_size", "get_c2c_expansion__count__end_size")],
       note="bounded stand-in only (floor of transcendental expressions, float rounding, brentq accuracy): lengths 1e-3..1e3, "
            "counts 1..200, ratios 0.5..2 incl. 1 +- 1e-8..1e-6, sizes 1e-4 L .. L; oracle = blockMesh's law to 1e-7 relative")
def law_bounded(ctx):
    rng = ctx.rng
    L = 10 ** rng.uniform(-3, 3)
    given = ctx.case.split("+") if "+" in ctx.case else ["count"]
    n = rng.randint(1, 200)
    c = rng.choice([rng.uniform(0.5, 2), 1.0, 1 + rng.choice((-1, 1)) * 10 ** rng.uniform(-8, -6), rng.uniform(0.9, 1.1)])
    size = L * 10 ** rng.uniform(-4, 0)
    if rng.random() < 0.35:
        # neighbourhood of uniform cells (ratio 1): size = L/n * (1 + delta), |delta| = 1e-6 .. 1e-2
        size = L / n * (1 + rng.choice((-1, 1)) * 10 ** rng.uniform(-6, -2))
    size = min(size, L * (1 - 1e-6))   # the property's domain: sizes up to the length
    E = 10 ** rng.uniform(-1.5, 1.5)
    if rng.random() < 0.3:
        # neighbourhood of total expansion 1 (the uniform shortcut applies within 1e-7 of it)
        E = 1 + rng.choice((-1, 1)) * 10 ** rng.uniform(-6.7, -5)
    val = {"count": n, "c2c_expansion": c, "start_size": size, "end_size": min(size * rng.uniform(0.3, 3), L * (1 - 1e-6)) if "start_size" in given else size,
           "total_expansion": E}
    kw = {k: val[k] for k in given}
    chop = Chop(**kw)
    res, exc = ctx.call(chop.calculate, L)
    if exc is not None:
        ctx.prove("rejection-is-a-value-or-arithmetic-error", isinstance(exc, (ValueError, ArithmeticError))
                  or (isinstance(exc, RuntimeError) and "converge" in str(exc)), exc=repr(exc))
        return
    count, tot = res
    ctx.prove("count-is-an-integer-at-least-one", isinstance(count, int) and count >= 1)
    if set(given) == {"c2c_expansion", "total_expansion"}:
        # cells cannot grow (c > 1) towards a smaller last cell (E < 1) or the other way round
        if (E - 1) * (c - 1) < -1e-4:
            # (a single cell is acceptable: its expansion is immaterial)
            ctx.prove("expansion-and-ratio-on-opposite-sides-of-one-rejected", count == 1, c=c, E=E, count=count)
        elif count > 2 and abs(c - 1) > 1e-3:
            lo_, hi_ = sorted((c ** (count - 2), c ** count))
            ctx.prove("count-realises-the-total-expansion-within-one-cell", lo_ * (1 - 1e-9) <= E <= hi_ * (1 + 1e-9), c=c, E=E, count=count)
    ctx.prove("total-expansion-finite-and-positive", math.isfinite(tot) and tot > 0, tot=tot)
    s1, e1, c1 = realised(L, count, tot)
    tol = 2e-6
    if "count" in given:
        ctx.prove("given-count-kept", count == max(int(n), 1))
        if "c2c_expansion" in given and count > 1:
            ctx.prove("given-ratio-reproduced", abs(c1 - c) <= tol * max(1, c) or abs(c - 1) <= 1.5e-7, c1=c1, c=c)
        if "total_expansion" in given:
            ctx.prove("given-total-expansion-reproduced", abs(tot - E) <= tol * E)
        if "start_size" in given and count > 1:
            ctx.prove("given-first-cell-reproduced", abs(s1 - size) <= 1e-5 * size, s1=s1, size=size)
        if "end_size" in given and "start_size" not in given and count > 1:
            ctx.prove("given-last-cell-reproduced", abs(e1 - size) <= 1e-5 * size, e1=e1, size=size)
    else:
        # count is derived: the requested size is met to within the rounding of count to the next whole cell
        if "start_size" in given and "c2c_expansion" in given and abs(c - 1) > 1e-6:
            ctx.prove("first-cell-never-coarser-than-requested", s1 <= size * (1 + 1e-6), s1=s1, size=size)
            if count > 1:
                s_prev, _, _ = realised(L, count - 1, c ** (count - 2))
                ctx.prove("one-cell-fewer-would-be-coarser", s_prev >= size * (1 - 1e-6), s_prev=s_prev, size=size)
    if set(given) == {"start_size", "total_expansion"} and 2e-7 <= abs(E - 1) <= 1e-3 and count > 1:
        # nearly uniform cells: the count is still rounded up to the next whole cell
        ctx.prove("first-cell-never-coarser-than-requested-near-ratio-one", s1 <= size * (1 + 1e-5), s1=s1, size=size, E=E, count=count)
        s_prev, _, _ = realised(L, count - 1, E)
        ctx.prove("one-cell-fewer-would-be-coarser-near-ratio-one", s_prev >= size * (1 - 1e-5), s_prev=s_prev, size=size)
    # reversing the chop: same count, reciprocal expansion
    inv = Chop(**kw)
    inv.invert()
    res2, exc2 = ctx.call(inv.calculate, L)
    if isinstance(exc2, RuntimeError) and "converge" in str(exc2):
        return   # A2: convergence of scipy's root finder is assumed, not checked (it gave up loudly)
    implied = {frozenset(("start_size", "end_size")): lambda: (kw["start_size"], kw["end_size"]),
               frozenset(("start_size", "total_expansion")): lambda: (kw["start_size"], kw["start_size"] * kw["total_expansion"]),
               frozenset(("end_size", "total_expansion")): lambda: (kw["end_size"] / kw["total_expansion"], kw["end_size"])}.get(frozenset(given))
    if implied is not None and sum(implied()) > L and isinstance(exc2, (ValueError, ArithmeticError)):
        # a first and a last cell that together exceed the edge cannot be realised with two or more cells: the
        # property asks for rejection with an error there, in either direction (the library's answer depends on
        # which iterates scipy's root finder visits); only a wrong or non-finite grading would be a violation
        ctx.prove("unrealisable-sizes-rejected-with-an-error", True, exc=repr(exc2))
        return
    ctx.prove("inverted-chop-accepted-too", exc2 is None, exc=repr(exc2), kw=kw, L=L)
    if exc2 is None:
        ctx.prove("inverted-chop-same-count", res2[0] == count, a=res2[0], b=count, kw=kw, L=L)
        ctx.prove("inverted-chop-reciprocal-expansion", abs(res2[1] * tot - 1) <= 1e-5, a=res2[1], b=tot)
