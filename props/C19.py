"""C19 — grid, slice and core/shell addressing of shapes and stacks is geometric."""
import math

import numpy as np

import classy_blocks as cb
from classy_blocks.base import transforms as tr
from classy_blocks.mesh import Mesh
from contracts.spec import geom as G
from pyvc.harness import proof
from pyvc.sym import And, Not, Or

SIZES = [(n, m) for n in range(1, 6) for m in range(1, 6)]
ST = "classy_blocks.construct.stack:"


def grid_sketch(ctx, n, m):
    p1 = np.array([ctx.real("ax"), ctx.real("ay"), 0], dtype=object if ctx.symbolic else float)
    w, h = ctx.real("w", lo=0.1, hi=10), ctx.real("h", lo=0.1, hi=10)
    p2 = p1 + np.array([w, h, 0], dtype=object if ctx.symbolic else float)
    return cb.Grid(p1, p2, n, m), p1, w, h


def cell_centre(p1, w, h, n, m, i, j):
    from fractions import Fraction

    return p1 + np.array([w * Fraction(2 * i + 1, 2 * n), h * Fraction(2 * j + 1, 2 * m), 0], dtype=object)


@proof("C19", "Grid/grid[j][i]-is-column-i-row-j", cases=SIZES, functions=["classy_blocks.construct.flat.sketches.grid:Grid.__init__",
                                                                           "classy_blocks.construct.flat.sketches.grid:Grid.grid", "classy_blocks.construct.flat.sketches.grid:Grid.faces"],
       samples=3)
def grid_addressing(ctx):
    n, m = ctx.case
    g, p1, w, h = grid_sketch(ctx, n, m)
    ctx.prove("m-rows-of-n-faces", len(g.grid) == m and all(len(r) == n for r in g.grid) and len(g.faces) == n * m)
    for j in range(m):
        for i in range(n):
            ctx.prove("face-centre-at-column-i-row-j", ctx.eq(g.grid[j][i].center, cell_centre(p1, w, h, n, m, i, j), tol=1e-9), i=i, j=j)
    ctx.prove("faces-list-is-row-major", all(g.faces[j * n + i] is g.grid[j][i] for j in range(m) for i in range(n)))
    # neighbouring faces share their corner positions
    if n > 1:
        ctx.prove("columns-share-an-edge", ctx.eq(g.grid[0][0].points[1].position, g.grid[0][1].points[0].position))


STACK_CASES = [(n, m, k) for (n, m) in SIZES for k in (1, 2, 3, 4) if (n * m * k <= 40 or (n, m, k) in ((5, 5, 4), (5, 4, 3), (4, 5, 2)))]


@proof("C19", "ExtrudedStack/grid[k][j][i]-and-slices", cases=STACK_CASES, samples=2, timeout=60,
       functions=[ST + "ExtrudedStack.__init__", ST + "TransformedStack.__init__", ST + "Stack.grid", ST + "Stack.get_slice", ST + "Stack.operations",
                  "classy_blocks.construct.shape:LoftedShape.__init__", "classy_blocks.construct.shape:LoftedShape.grid"])
def extruded_stack(ctx):
    n, m, k = ctx.case
    g, p1, w, h = grid_sketch(ctx, n, m)
    amount = np.array([ctx.real("ex"), ctx.real("ey"), ctx.real("ez", lo=0.1, hi=10)], dtype=object if ctx.symbolic else float)
    stack = cb.ExtrudedStack(g, amount, k)
    grid = stack.grid
    ctx.prove("k-tiers-of-m-rows-of-n", len(grid) == k and all(len(t) == m and all(len(r) == n for r in t) for t in grid))
    from fractions import Fraction

    for t in range(k):
        for j in range(m):
            for i in range(n):
                op = grid[t][j][i]
                want = cell_centre(p1, w, h, n, m, i, j) + amount * Fraction(2 * t + 1, 2 * k)
                ctx.prove("operation-centre-at-column-i-row-j-tier-k", ctx.eq(op.center, want, tol=1e-9), i=i, j=j, t=t)
    _check_slices(ctx, stack, n, m, k)


def _check_slices(ctx, stack, n, m, k):
    grid = stack.grid
    ident = lambda ops: sorted(id(o) for o in ops)
    for rep in (0, 1):   # asking twice must give the same answer (no hidden state)
        for q in range(n):
            got = stack.get_slice(0, q)
            ctx.prove("slice-axis-0-is-column-q-each-once", ident(got) == ident(grid[t][j][q] for t in range(k) for j in range(m)) and len(got) == k * m, q=q, rep=rep)
        for q in range(m):
            got = stack.get_slice(1, q)
            ctx.prove("slice-axis-1-is-row-q-each-once", ident(got) == ident(grid[t][q][i] for t in range(k) for i in range(n)) and len(got) == k * n, q=q, rep=rep)
        for q in range(k):
            got = stack.get_slice(2, q)
            ctx.prove("slice-axis-2-is-tier-q-each-once", ident(got) == ident(grid[q][j][i] for j in range(m) for i in range(n)) and len(got) == n * m, q=q, rep=rep)
    ctx.prove("queries-leave-the-grid-unchanged", len(stack.grid) == k and all(len(t) == m and all(len(r) == n for r in t) for t in stack.grid)
              and len(stack.operations) == n * m * k and len({id(o) for o in stack.operations}) == n * m * k)


@proof("C19", "RevolvedStack-TransformedStack/grid[k][j][i]", cases=[("revolved", 2, 3, 3), ("revolved", 3, 1, 4), ("transformed", 3, 2, 2), ("transformed", 1, 4, 3)],
       samples=2, timeout=120, functions=[ST + "RevolvedStack.__init__", ST + "TransformedStack.__init__"],
       note="tier t is the base cell transformed t (bottom) and t+1 (top) times")
def other_stacks(ctx):
    kind, n, m, k = ctx.case
    g, p1, w, h = grid_sketch(ctx, n, m)
    if kind == "revolved":
        theta = ctx.real("theta", lo=0.1, hi=1.5)     # angle per tier
        origin = np.array([ctx.real("ox", lo=-20, hi=-11), 0, 0], dtype=object if ctx.symbolic else float)
        axis = [0.0, 1.0, 0.0]
        stack = cb.RevolvedStack(g, theta * k, axis, origin, k)
        c, s = (theta.cos(), theta.sin()) if ctx.symbolic else (math.cos(theta), math.sin(theta))

        def step(x):
            return origin + G.rot(np.array(axis), c, s, x - origin)
    else:
        d = ctx.vec("d")
        r = ctx.real("r", lo=0.5, hi=1.5)
        o = ctx.vec("o")
        stack = cb.TransformedStack(g, [tr.Translation(d), tr.Scaling(r, o)], k)

        def step(x):
            return o + (x + d - o) * r
    grid = stack.grid
    ctx.prove("k-tiers-of-m-rows-of-n", len(grid) == k and all(len(t) == m and all(len(r_) == n for r_ in t) for t in grid))
    for j in range(m):
        for i in range(n):
            base_pts = [np.array(p.position) for p in g.grid[j][i].points]
            pts = base_pts
            for t in range(k):
                op = grid[t][j][i]
                nxt = [step(x) for x in pts]
                ctx.prove("bottom-face-is-the-base-cell-transformed-t-times", ctx.eq(op.bottom_face.point_array, np.array(pts), tol=1e-7), i=i, j=j, t=t)
                ctx.prove("top-face-is-the-base-cell-transformed-t+1-times", ctx.eq(op.top_face.point_array, np.array(nxt), tol=1e-7), i=i, j=j, t=t)
                pts = nxt
    _check_slices(ctx, stack, n, m, k)


# ------------------------------------------------------------------------------ core / shell
def _round_shapes(rng=None):
    u = (lambda a, b: rng.uniform(a, b)) if rng else (lambda a, b: (a + b) / 2)
    c = np.array([u(-3, 3), u(-3, 3), u(-3, 3)])
    ax = np.array([u(-1, 1), u(-1, 1), u(0.5, 2)])
    ax = ax / np.linalg.norm(ax)
    r = np.cross(ax, [1.0, 0.3, 0.2])
    r = r / np.linalg.norm(r) * u(0.5, 2)
    L = u(0.5, 3)
    return c, ax, r, L


@proof("C19", "round-shapes/core-shell-partition", cases=["cylinder", "semicylinder", "frustum", "elbow", "ring", "wrapped", "onecore"], level="S", samples=10,
       functions=["classy_blocks.construct.shapes.round:RoundSolidShape.core", "classy_blocks.construct.shapes.round:RoundSolidShape.shell",
                  "classy_blocks.construct.shapes.round:RoundHollowShape.shell", "classy_blocks.construct.flat.sketches.disk:DiskBase.core",
                  "classy_blocks.construct.flat.sketches.disk:DiskBase.shell"],
       note="shape-bounded: one placement per class in the proof run, random placements in the bounded tier")
def core_shell(ctx):
    c, ax, r, L = _round_shapes(None if ctx.symbolic else ctx.rng)
    kind = ctx.case
    R = np.linalg.norm(r)
    if kind == "cylinder":
        sh = cb.Cylinder(c, c + ax * L, c + r)
    elif kind == "semicylinder":
        sh = cb.SemiCylinder(c, c + ax * L, c + r)
    elif kind == "frustum":
        sh = cb.Frustum(c, c + ax * L, c + r, R * 0.6)
    elif kind == "elbow":
        sh = cb.Elbow(c, c + r, ax, 1.0, c + np.cross(ax, r) / R * 5 * R, r / R, R * 1.2)
    elif kind == "ring":
        sh = cb.ExtrudedRing(c, c + ax * L, c + r, R * 0.5)
    elif kind == "wrapped":
        sketch = cb.WrappedDisk(c, c + r / R * 3 * R / 3 * 1.0, R * 0.4, ax)
        sh = cb.ExtrudedShape(sketch, L)
    else:
        sh = cb.ExtrudedShape(cb.OneCoreDisk(c, c + r, ax), L)
    ops = list(sh.operations)
    if kind in ("wrapped", "onecore"):
        core_f, shell_f = sh.sketch_1.core, sh.sketch_1.shell
        core = [sh.operations[i] for i, f_ in enumerate(sh.sketch_1.faces) if any(f_ is x for x in core_f)]
        shell = [sh.operations[i] for i, f_ in enumerate(sh.sketch_1.faces) if any(f_ is x for x in shell_f)]
        outer_r = max(np.linalg.norm(np.asarray(p.position, dtype=float) - c - ax * np.dot(np.asarray(p.position, dtype=float) - c, ax))
                      for f_ in sh.sketch_1.faces for p in f_.points)
    else:
        core, shell = list(sh.core), list(sh.shell)
        outer_r = None
    ids = lambda l: [id(o) for o in l]
    if kind != "wrapped":
        ctx.prove("core-and-shell-partition-the-operations", sorted(ids(core) + ids(shell)) == sorted(ids(ops)) and not (set(ids(core)) & set(ids(shell))))
    ctx.prove("core-then-shell-in-order", ids(core) + ids(shell) == ids(ops) or kind == "wrapped")

    def touches_outer(op):
        # a corner of the start face lies on the outer circle of the start sketch
        pts = np.asarray(op.bottom_face.point_array, dtype=float)
        sk = sh.sketch_1
        cen = np.asarray(sk.center, dtype=float)
        rad = outer_r if outer_r is not None else (float(sk.outer_radius) if hasattr(sk, "outer_radius") else float(sk.radius))
        return any(abs(np.linalg.norm(p - cen) - rad) < 1e-6 * rad for p in pts)

    if kind == "wrapped":
        ctx.prove("shell-operations-touch-the-outer-surface", all(touches_outer(o) for o in shell) and len(shell) > 0)
        ctx.prove("core-operations-do-not", all(not touches_outer(o) for o in core) and len(core) > 0)
    else:
        ctx.prove("shell-operations-touch-the-outer-surface", all(touches_outer(o) for o in shell) and len(shell) > 0)
        ctx.prove("core-operations-do-not", all(not touches_outer(o) for o in core))
        if kind == "ring":
            ctx.prove("a-ring-has-no-core", len(core) == 0)


# ------------------------------------------------------------------------------ deleting an addressed entity
@proof("C19", "delete-addressed-operation", cases=[("stack", 0, 0, 0), ("stack", 1, 2, 1), ("stack", 2, 0, 2), ("stack", 2, 2, 0), ("shape-core", 0), ("shape-shell", 3)],
       level="S", samples=1, functions=["classy_blocks.mesh:Mesh.delete", "classy_blocks.mesh:Mesh.assemble"],
       note="a 3x3 grid extruded in 3 tiers / a cylinder; deleting grid[k][j][i] (resp. core[i], shell[i]) removes the block at that place and no other")
def delete_addressed(ctx):
    mesh = Mesh()
    if ctx.case[0] == "stack":
        _, t, j, i = ctx.case
        stack = cb.ExtrudedStack(cb.Grid([0.0, 0.0, 0.0], [3.0, 3.0, 0.0], 3, 3), 3.0, 3)
        victim = stack.grid[t][j][i]
        want_missing = np.array([i + 0.5, j + 0.5, t + 0.5])
        entity = stack
    else:
        cyl = cb.Cylinder([0.0, 0.0, 0.0], [0.0, 0.0, 1.0], [1.0, 0.0, 0.0])
        victim = (cyl.core if ctx.case[0] == "shape-core" else cyl.shell)[ctx.case[1]]
        want_missing = np.asarray(victim.center, dtype=float)
        entity = cyl
    all_centres = [np.asarray(o.center, dtype=float) for o in entity.operations]
    mesh.add(entity)
    mesh.delete(victim)
    mesh.assemble(skip_edges=True)
    got = [np.average([np.asarray(v.position, dtype=float) for v in b.vertices], axis=0) for b in mesh.blocks]
    ctx.prove("one-block-fewer", len(got) == len(all_centres) - 1)
    ctx.prove("the-block-at-that-location-is-gone", all(np.linalg.norm(g - want_missing) > 1e-6 for g in got))
    others = [c for c in all_centres if np.linalg.norm(c - want_missing) > 1e-6]
    ctx.prove("every-other-block-is-still-there", all(any(np.linalg.norm(g - c) < 1e-9 for g in got) for c in others) and len(others) == len(all_centres) - 1)


# ------------------------------------------------------------------------------ every disk sketch: addressing of lofted shapes, core / shell
SKETCHES = ["OneCoreDisk", "QuarterDisk", "HalfDisk", "FourCoreDisk", "WrappedDisk", "Oval", "QuarterSplineDisk", "HalfSplineDisk", "SplineDisk",
            "QuarterSplineRing", "HalfSplineRing", "SplineRing"]


def _make_sketch(kind, rng=None, offset=0.0):
    u = (lambda a, b: rng.uniform(a, b)) if rng else (lambda a, b: (a + b) / 2)
    c = np.array([u(-3, 3), u(-3, 3), u(-3, 3)]) + offset
    n = np.array([u(-1, 1), u(-1, 1), u(0.5, 2)])
    n = n / np.linalg.norm(n)
    e1 = np.cross(n, [1.0, 0.3, 0.2])
    e1 = e1 / np.linalg.norm(e1)
    e2 = np.cross(n, e1)
    R = u(0.5, 2)
    from classy_blocks.construct.flat.sketches.disk import QuarterDisk

    if kind in ("OneCoreDisk", "HalfDisk", "FourCoreDisk"):
        return getattr(cb, kind)(c, c + e1 * R, n), c, n
    if kind == "QuarterDisk":
        return QuarterDisk(c, c + e1 * R, n), c, n
    if kind == "WrappedDisk":
        return cb.WrappedDisk(c, c + (e1 + e2) * R, 0.5 * R, n), c, n
    if kind == "Oval":
        return cb.Oval(c - e1 * R, c + e1 * R, n, 0.6 * R), c, n
    args = [c, c + e1 * R * u(1.0, 1.5), c + e2 * R, u(0.0, 0.3) * R, u(0.0, 0.2) * R]
    if kind.endswith("Ring"):
        args += [0.3 * R, 0.15 * R]
    return getattr(cb, kind)(*args), c, n


def _outer_faces(sketch, centre):
    """Faces with an edge on the outer boundary, found without the library's core/shell lists: an edge that belongs to
    one face only and does not lie on a line through the sketch centre (the straight cuts of half and quarter sketches do)."""
    key = lambda p: tuple(np.round(np.asarray(p, dtype=float), 7))
    count = {}
    for f_ in sketch.faces:
        P = [np.asarray(p.position, dtype=float) for p in f_.points]
        for a in range(4):
            e = frozenset((key(P[a]), key(P[(a + 1) % 4])))
            count[e] = count.get(e, 0) + 1
    size = max(np.linalg.norm(np.asarray(p.position, dtype=float) - centre) for f_ in sketch.faces for p in f_.points)
    outer = []
    for f_ in sketch.faces:
        P = [np.asarray(p.position, dtype=float) for p in f_.points]
        touch = False
        for a in range(4):
            p, q = P[a], P[(a + 1) % 4]
            if count[frozenset((key(p), key(q)))] == 1 and np.linalg.norm(np.cross(p - centre, q - centre)) > 1e-6 * size * size:
                touch = True
        outer.append(touch)
    return outer


@proof("C19", "disk-sketches/lofted-grid-and-core-shell", cases=SKETCHES, level="S", samples=6,
       functions=["classy_blocks.construct.shape:LoftedShape.__init__", "classy_blocks.construct.shape:LoftedShape.grid", "classy_blocks.construct.flat.sketches.disk:DiskBase.core",
                  "classy_blocks.construct.flat.sketches.disk:DiskBase.shell", "classy_blocks.construct.flat.sketches.spline_round:QuarterSplineDisk.grid",
                  "classy_blocks.construct.flat.sketches.disk:Oval.__init__", "classy_blocks.construct.shapes.round:RoundSolidShape.core"],
       note="shape-bounded: every disk / spline-round sketch class, one placement in the proof run and random placements in the bounded tier; "
            "the outer boundary is found from the sketch's own edges (an edge of one face only, not on a line through the centre)")
def disk_sketch_addressing(ctx):
    _disk_sketch_addressing(ctx, ctx.case, 0.0)


@proof("C19", "disk-sketches/lofted-grid-and-core-shell/far-from-the-origin", cases=SKETCHES, level="S", samples=3,
       functions=["classy_blocks.construct.flat.sketches.spline_round:HalfSplineDisk.grid", "classy_blocks.construct.flat.sketches.spline_round:QuarterSplineDisk.grid",
                  "classy_blocks.construct.flat.sketches.disk:DiskBase.core", "classy_blocks.construct.flat.sketches.disk:DiskBase.shell"],
       note="the same contract for a sketch of size about 1 centred 3e5 away from the origin in every coordinate (round 5: a core/shell "
            "split by position with a relative tolerance)")
def disk_sketch_addressing_far(ctx):
    _disk_sketch_addressing(ctx, ctx.case, 3.0e5)


def _disk_sketch_addressing(ctx, kind, offset):
    sketch, centre, normal = _make_sketch(kind, None if ctx.symbolic else ctx.rng, offset)
    if kind == "Oval":
        centre = np.mean([np.asarray(p.position, dtype=float) for f_ in sketch.faces for p in f_.points], axis=0)
    height = normal * 0.8
    shape = cb.ExtrudedShape(sketch, height)
    # 1. grid[r][j] of the shape stands on grid[r][j] of the sketch, all the way up
    ctx.prove("shape-grid-has-the-sketchs-layout", [len(r) for r in shape.grid] == [len(r) for r in sketch.grid])
    flat = [f_ for row in sketch.grid for f_ in row]
    ctx.prove("sketch-grid-lists-every-face-once", sorted(id(f_) for f_ in flat) == sorted(id(f_) for f_ in sketch.faces))
    for r, row in enumerate(shape.grid):
        for j, op in enumerate(row):
            base = np.asarray(sketch.grid[r][j].point_array, dtype=float)
            ctx.prove("operation-at-grid[r][j]-stands-on-sketch-face-grid[r][j]", bool(np.allclose(np.asarray(op.bottom_face.point_array, dtype=float), base, rtol=0, atol=1e-9 + 1e-15 * offset)), r=r, j=j)
            ctx.prove("and-ends-above-that-face", bool(np.allclose(np.asarray(op.top_face.point_array, dtype=float), base + height, rtol=0, atol=1e-9 + 1e-15 * offset)), r=r, j=j)
    ctx.prove("operations-listed-in-grid-order", [id(o) for o in shape.operations] == [id(o) for row in shape.grid for o in row])
    # 2. core / shell = away from / on the outer boundary
    outer = _outer_faces(sketch, centre)
    shell = sketch.shell
    core = sketch.core or []
    in_list = lambda f_, lst: any(f_ is x for x in lst)
    if kind != "WrappedDisk":   # a wrapped disk has a middle ring of faces between its core and its shell
        ctx.prove("core-and-shell-partition-the-faces", len(core) + len(shell) == len(sketch.faces) and all(in_list(f_, core) != in_list(f_, shell) for f_ in sketch.faces))
    ctx.prove("core-faces-are-not-on-the-outer-boundary", all(not o for f_, o in zip(sketch.faces, outer) if in_list(f_, core)))
    ctx.prove("shell-faces-are-exactly-those-on-the-outer-boundary", all(in_list(f_, shell) == o for f_, o in zip(sketch.faces, outer)),
              outer=outer, shell=[in_list(f_, shell) for f_ in sketch.faces])
    if kind.endswith("Ring"):
        ctx.prove("a-ring-has-no-core", len(core) == 0)


@proof("C19", "TransformedStack/default-scaling-origin-keeps-cells-together", cases=[(2, 2, 2), (3, 2, 3), (1, 3, 2)], level="S", samples=3, timeout=120,
       functions=["classy_blocks.base.element:ElementBase.transform", ST + "TransformedStack.__init__"],
       note="a tapered stack (translation, then scaling about the default origin) on a grid with symbolic placement: the cell addressed as "
            "grid[k][j][i] shares its corners with its column, row and tier neighbours")
def tapered_stack_conformal(ctx):
    n, m, k = ctx.case
    g, p1, w, h = grid_sketch(ctx, n, m)
    d = ctx.vec("d")
    r = ctx.real("r", lo=0.5, hi=1.5)
    stack = cb.TransformedStack(g, [tr.Translation(d), tr.Scaling(r)], k)
    grid = stack.grid
    for t in range(k):
        for j in range(m):
            for i in range(n):
                P = grid[t][j][i].point_array
                if i + 1 < n:
                    Q = grid[t][j][i + 1].point_array
                    ctx.prove("shares-a-face-with-the-next-column", And([ctx.eq(P[a], Q[b], tol=1e-9) for a, b in ((1, 0), (2, 3), (5, 4), (6, 7))]), t=t, j=j, i=i)
                if j + 1 < m:
                    Q = grid[t][j + 1][i].point_array
                    ctx.prove("shares-a-face-with-the-next-row", And([ctx.eq(P[a], Q[b], tol=1e-9) for a, b in ((3, 0), (2, 1), (7, 4), (6, 5))]), t=t, j=j, i=i)
                if t + 1 < k:
                    Q = grid[t + 1][j][i].point_array
                    ctx.prove("shares-a-face-with-the-next-tier", And([ctx.eq(P[a + 4], Q[a], tol=1e-9) for a in range(4)]), t=t, j=j, i=i)


@proof("C19", "MappedSketch/grid-follows-the-faces-after-merge-and-copy", cases=["merge-after-use", "copy-after-use", "merge-then-copy"], level="S", samples=1,
       functions=["classy_blocks.construct.flat.sketches.mapped:MappedSketch.grid", "classy_blocks.construct.flat.sketches.mapped:MappedSketch.merge",
                  "classy_blocks.construct.shape:LoftedShape.__init__", "classy_blocks.construct.stack:Stack.grid"],
       note="executed contract: a mapped sketch is used (its grid read, a shape built on it), then merged with another one and / or copied and "
            "moved; the grid of the sketch, of a shape and of a stack built afterwards address every face as it is now, each once (round 5: "
            "a grid remembered from the first use)")
def mapped_sketch_grid_after_merge(ctx):
    def strip(x0, n):
        pos = [[x0 + i, 0, 0] for i in range(n + 1)] + [[x0 + i, 1, 0] for i in range(n + 1)]
        return cb.MappedSketch(pos, [[i, i + 1, n + 2 + i, n + 1 + i] for i in range(n)])

    sketch = strip(0.0, 2)
    _ = sketch.grid
    first = cb.ExtrudedShape(sketch, 1.0)
    ctx.prove("first-use/one-operation-per-face", len(first.operations) == 2)
    if "merge" in ctx.case:
        sketch.merge(strip(2.0, 2))
    if "copy" in ctx.case:
        sketch = sketch.copy().translate([0.0, 5.0, 0.0])
    n = len(sketch.faces)
    ctx.prove("faces-as-expected", n == (4 if "merge" in ctx.case else 2))
    flat = [f_ for row in sketch.grid for f_ in row]
    ctx.prove("sketch-grid-lists-every-face-once", [id(f_) for f_ in flat] == [id(f_) for f_ in sketch.faces])
    shape = cb.ExtrudedShape(sketch, 1.0)
    ops = [o for row in shape.grid for o in row]
    ctx.prove("shape-grid-addresses-one-operation-per-face", len(ops) == n and len(shape.operations) == n)
    ctx.prove("each-operation-stands-on-its-face-as-it-is-now",
              len(ops) == n and all(bool(np.allclose(np.asarray(o.bottom_face.point_array, dtype=float), np.asarray(f_.point_array, dtype=float), atol=1e-12))
                                    for o, f_ in zip(ops, sketch.faces)))
    stack = cb.ExtrudedStack(sketch, 1.5, 3)
    for k in range(3):
        tier = [o for row in stack.grid[k] for o in row]
        ctx.prove("stack-tier-addresses-one-operation-per-face", len(tier) == n, k=k)
        ctx.prove("stack-tier-operations-above-their-faces",
                  len(tier) == n and all(bool(np.allclose(np.asarray(o.bottom_face.center, dtype=float)[:2], np.asarray(f_.center, dtype=float)[:2], atol=1e-12))
                                         for o, f_ in zip(tier, sketch.faces)), k=k)
        ctx.prove("slice-along-the-stacking-axis-is-that-tier", sorted(id(o) for o in stack.get_slice(2, k)) == sorted(id(o) for o in tier), k=k)
