"""C06 — the written blockMeshDict is a faithful, well-formed rendering of the model."""
import os
import re
import tempfile

import numpy as np

from classy_blocks.items.vertex import Vertex
from classy_blocks.mesh import Mesh
from classy_blocks.util import constants
from contracts.spec import foamdict as F
from contracts.spec import hexa
from contracts.spec.programs import Program
from pyvc.harness import proof
from pyvc.sym import And, Not, Or


def write_text(mesh, debug=False):
    d = tempfile.mkdtemp(prefix="c06_", dir=os.environ.get("TMPDIR"))
    path, vtk = os.path.join(d, "blockMeshDict"), os.path.join(d, "debug.vtk")
    try:
        mesh.write(path, vtk if debug else None)
        with open(path) as fh:
            text = fh.read()
        vt = open(vtk).read() if debug else None
        return text, vt
    finally:
        for f in (path, vtk):
            if os.path.exists(f):
                os.remove(f)
        os.rmdir(d)


def check_written(ctx, prog, text, vtk=None):
    mesh = prog.mesh
    top = F.parse(text)
    order = [k for k in top["__order__"]]
    sections = [k for k in order if k in ("geometry", "vertices", "blocks", "edges", "faces", "boundary", "defaultPatch", "mergePatchPairs")]
    want = [k for k in ("geometry", "vertices", "blocks", "edges", "faces", "boundary", "defaultPatch", "mergePatchPairs")
            if k in sections]
    ctx.prove("sections-in-an-accepted-order", sections == want and order[0] == "FoamFile"
              and {"vertices", "blocks", "edges", "boundary", "mergePatchPairs"} <= set(sections))
    ctx.prove("header-declares-a-blockMeshDict", top["FoamFile"].get("object") == "blockMeshDict" and top["FoamFile"].get("class") == "dictionary")
    # settings
    for k, v in prog.settings.items():
        ctx.prove("setting-written", str(top.get(k)) == str(v), key=k)
    ctx.prove("no-undeclared-settings", all(k in prog.settings or k in ("FoamFile", "__order__") or k in sections or (k == "scale" and str(top[k]) == "1")
                                            for k in order))
    # vertices: the model's points to 8 decimals, dense numbering
    vs = F.vertices(top)
    live = prog.live_ops
    ctx.prove("vertex-count-equals-mesh", len(vs) == len(mesh.vertices))
    ctx.prove("vertex-numbers-dense", [v.index for v in mesh.vertices] == list(range(len(vs))))
    # hex entries: one per non-deleted operation, in depot order, its own corner order
    bl = F.blocks(top)
    ctx.prove("one-hex-per-non-deleted-operation", len(bl) == len(live), n=len(bl), want=len(live))
    ok_all = True
    for b, op in zip(bl, live):
        idx = [int(t) for t in b["vertices"]]
        ctx.prove("every-index-refers-to-a-vertex", all(0 <= i < len(vs) for i in idx))
        pts = np.asarray(op.point_array, dtype=float)
        for c, i in enumerate(idx):
            if not (0 <= i < len(vs)):
                continue
            written = np.array([float(x) for x in vs[i][:3]])
            ctx.prove("hex-corner-is-the-operations-point-to-8-decimals", bool(np.all(np.abs(written - pts[c]) <= 0.5e-8 + 1e-12 * np.abs(pts[c]))),
                      corner=c, written=written.tolist(), model=pts[c].tolist())
            ctx.prove("vertex-projection-labels", (vs[i][3] or []) == list(mesh.vertices[i].projected_to))
        ctx.prove("cell-zone-as-declared", b["zone"] == op.cell_zone)
        ctx.prove("three-counts-and-a-grading", len(b["counts"]) == 3 and all(int(n) >= 1 for n in b["counts"])
                  and ((b["grading_kind"] == "simpleGrading" and len(b["grading"]) == 3) or (b["grading_kind"] == "edgeGrading" and len(b["grading"]) == 12)))
    # gradings: what the hex entry says about each of the 12 edges is the grading the model holds for that edge
    if len(bl) == len(live) == len(mesh.blocks):
        for b, blk in zip(bl, mesh.blocks):
            entries = b["grading"]
            if b["grading_kind"] == "simpleGrading" and len(entries) == 3:
                entries = [entries[k // 4] for k in range(12)]
            if len(entries) != 12:
                continue
            for k, (c1, c2) in enumerate(hexa.EDGE_GRADING_ORDER):
                wire = blk.wires[c1][c2]
                ctx.prove("hex-entry-grading-of-each-edge-is-the-models", _same_grading(entries[k], wire.grading.specification),
                          edge=(c1, c2), written=entries[k], model=[list(map(float, x)) for x in wire.grading.specification])
                ctx.prove("hex-entry-count-is-the-edges-count", int(b["counts"][k // 4]) == wire.grading.count, edge=(c1, c2))
    blocks_idx = [[int(t) for t in b["vertices"]] for b in bl]
    side_sets = {frozenset(bi[c] for c in hexa.FACE_SPEC[s]) for bi in blocks_idx for s in hexa.SIDES}
    # boundary: exactly the declared patches with type/settings and the quads of the assigned sides
    bd = F.boundary(top)
    decl = prog.declared_patches()
    ctx.prove("exactly-the-declared-patches", sorted(p["name"] for p in bd) == sorted(decl), written=[p["name"] for p in bd], declared=sorted(decl))
    for p in bd:
        kind, settings = prog.patch_kind.get(p["name"], ["patch", []])
        ctx.prove("patch-type-as-declared", p["type"] == kind, name=p["name"], got=p["type"], want=kind)
        want_settings = {s.split()[0]: s.split()[1:] for s in settings}
        got_settings = {k: (v if isinstance(v, list) else [v]) for k, v in p["settings"].items()}
        flat = lambda v: [x for y in v for x in (y if isinstance(y, list) else [y])]
        norm = lambda d: {k: [t.strip("()") for t in flat(v) if t.strip("()")] for k, v in d.items()}
        ctx.prove("patch-settings-as-declared", norm(got_settings) == norm(want_settings), name=p["name"], got=got_settings, want=want_settings)
        quads = [frozenset(int(t) for t in q) for q in p["faces"]]
        want_quads = []
        for op, side in decl.get(p["name"], []):
            bi = blocks_idx[[id(o) for o in live].index(id(op))] if len(blocks_idx) == len(live) else None
            if bi is not None:
                want_quads.append(frozenset(bi[c] for c in hexa.FACE_SPEC[side]))
        ctx.prove("patch-quads-are-the-assigned-sides", sorted(map(sorted, quads)) == sorted(map(sorted, set(want_quads))), name=p["name"])
        ctx.prove("every-patch-quad-is-a-side-of-some-block", all(q in side_sets for q in quads))
        for q in p["faces"]:
            ctx.prove("quad-walks-around-its-side", _is_cycle([int(t) for t in q], blocks_idx))
    # defaultPatch, mergePatchPairs
    if prog.default_patch is None:
        ctx.prove("no-default-patch-unless-declared", "defaultPatch" not in top)
    else:
        ctx.prove("default-patch-as-declared", top.get("defaultPatch") == {"name": prog.default_patch[0], "type": prog.default_patch[1]})
    ctx.prove("merge-pairs-as-declared", [list(x) for x in top["mergePatchPairs"]] == prog.merged)
    # faces: projected sides
    fs = F.faces(top)
    want_faces = []
    for op, bi in zip(live, blocks_idx):
        for i, side in enumerate(constants.SIDES_MAP):
            if op.side_projects[i] is not None:
                want_faces.append((frozenset(bi[c] for c in hexa.FACE_SPEC[side]), op.side_projects[i]))
        if op.bottom_face.projected_to is not None:
            want_faces.append((frozenset(bi[c] for c in hexa.FACE_SPEC["bottom"]), op.bottom_face.projected_to))
        if op.top_face.projected_to is not None:
            want_faces.append((frozenset(bi[c] for c in hexa.FACE_SPEC["top"]), op.top_face.projected_to))
    got_faces = [(frozenset(int(t) for t in f_["quad"]), f_["geometry"]) for f_ in fs]
    ctx.prove("projected-faces-are-the-declared-ones", {q for q, _ in got_faces} == {q for q, _ in want_faces} and len(got_faces) == len({q for q, _ in want_faces}))
    ctx.prove("every-projected-quad-is-a-side-of-some-block", all(q in side_sets for q, _ in got_faces))
    # geometry
    geo = top.get("geometry", {})
    ctx.prove("geometry-section-has-the-declared-geometries", set(prog.geometry) <= set(geo))
    if getattr(prog, "exact_geometry", False):
        ctx.prove("geometry-section-has-no-undeclared-geometry", set(geo) == set(prog.geometry), written=sorted(geo), declared=sorted(prog.geometry))
    used = {g for v in vs for g in (v[3] or [])} | {g for _, g in got_faces} | {g for e in F.edges(top) if e["kind"] == "project" for g in e["data"]}
    ctx.prove("every-geometry-projected-to-is-defined", used <= set(geo), used=sorted(used), defined=sorted(geo))
    # edges refer to existing vertices that form a block edge
    for e in F.edges(top):
        a, b = int(e["v1"]), int(e["v2"])
        ctx.prove("edge-entry-joins-two-vertices-of-a-block-edge", any(hexa.is_edge(bi.index(a), bi.index(b)) for bi in blocks_idx if a in bi and b in bi), a=a, b=b)
    if vtk is not None:
        lines = vtk.splitlines()
        ip = [i for i, l in enumerate(lines) if l.startswith("POINTS")][0]
        n = int(lines[ip].split()[1])
        pts = [list(map(float, l.split())) for l in lines[ip + 1: ip + 1 + n]]
        ctx.prove("vtk-lists-the-same-points", n == len(vs) and all(np.allclose(p, np.asarray(mesh.vertices[i].position, dtype=float), atol=1e-12, rtol=1e-12) for i, p in enumerate(pts)))
        ic = [i for i, l in enumerate(lines) if l.startswith("CELLS")][0]
        nc = int(lines[ic].split()[1])
        cells = [[int(t) for t in l.split()] for l in lines[ic + 1: ic + 1 + nc]]
        ctx.prove("vtk-lists-the-same-hexahedra", nc == len(bl) and all(c[0] == 8 and c[1:] == bi for c, bi in zip(cells, blocks_idx)))


def _same_grading(entry, spec, rtol=2e-5):
    """entry: a number token or a list of (length ratio, count, expansion) triples; spec: the model's sections"""
    if not isinstance(entry, list):
        return len(spec) == 1 and abs(float(entry) - float(spec[0][2])) <= rtol * max(1.0, abs(float(spec[0][2])))
    if len(entry) != len(spec):
        return False
    for e, m in zip(entry, spec):
        if len(e) != 3 or abs(float(e[0]) - float(m[0])) > rtol * max(1.0, abs(float(m[0]))) or int(float(e[1])) != int(m[1]) \
                or abs(float(e[2]) - float(m[2])) > rtol * max(1.0, abs(float(m[2]))):
            return False
    return True


def _is_cycle(q, blocks_idx):
    for bi in blocks_idx:
        if all(v in bi for v in q):
            loc = [bi.index(v) for v in q]
            if len(set(loc)) == 4 and all(hexa.is_edge(loc[i], loc[(i + 1) % 4]) for i in range(4)):
                return True
    return False


@proof("C06", "programs/written-file-equals-model", cases=list(range(24)), level="S", samples=1, timeout=60,
       functions=["classy_blocks.mesh:Mesh.write", "classy_blocks.mesh:Mesh.assemble", "classy_blocks.mesh:Mesh._add_vertices", "classy_blocks.mesh:Mesh.format_settings",
                  "classy_blocks.lists.vertex_list:VertexList.description", "classy_blocks.lists.block_list:BlockList.description",
                  "classy_blocks.lists.edge_list:EdgeList.description", "classy_blocks.lists.face_list:FaceList.description",
                  "classy_blocks.lists.patch_list:PatchList.description", "classy_blocks.lists.patch_list:PatchList.modify",
                  "classy_blocks.lists.geometry_list:GeometryList.description", "classy_blocks.items.patch:Patch.description",
                  "classy_blocks.items.block:Block.description", "classy_blocks.items.vertex:Vertex.description", "classy_blocks.util.vtk_writer:write_vtk"],
       note="program-bounded: 24 enumerated user scripts (operations/shapes, patches on any sides, zones, side/edge/corner "
            "projections, merged pairs, default patch, patch modifications incl. clearing settings, settings, deletions incl. inside a "
            "shape; every second script placed 1e2..5e3 from the origin with features down to 3e-3); the written text is read back "
            "by an independent parser and compared with the recorded declarations")
def programs(ctx):
    k = ctx.case
    prog = Program(1000 + k, offset_scale=(k % 2 == 1))
    text, vtk = write_text(prog.mesh, debug=True)
    check_written(ctx, prog, text, vtk)


@proof("C06", "bounded/random-programs", level="B", samples=25, cases=["near-origin", "far-small"],
       functions=["classy_blocks.mesh:Mesh.write"], note="bounded stand-in: seeded random user scripts, same oracle")
def random_programs(ctx):
    prog = Program(ctx.rng.randrange(10 ** 9), offset_scale=(ctx.case == "far-small"))
    text, vtk = write_text(prog.mesh, debug=True)
    check_written(ctx, prog, text, vtk)


# ------------------------------------------------------------------------------ symbolic rendering of items
@proof("C06", "Vertex.description/symbolic-rendering", cases=["plain", "projected"],
       functions=["classy_blocks.items.vertex:Vertex.description", "classy_blocks.util.constants:vector_format"])
def vertex_rendering(ctx):
    x = ctx.vec("x")
    v = Vertex(x, 7)
    if ctx.case == "projected":
        v.project(["g1", "g2"])
    with ctx.rendering() as R:
        text = v.description
    toks = F.tokens(text.split("//")[0])
    if ctx.case == "projected":
        ctx.prove("project-keyword-and-labels", toks[0] == "project" and toks[-4:] == ["(", "g1", "g2", ")"])
        toks = toks[1:]
    ctx.prove("three-coordinates-in-a-list", toks[0] == "(" and toks[4] == ")")
    ctx.prove("coordinates-are-the-position-with-8-decimals",
              And([ctx.eq(R.value(t), x[i], tol=0.6e-8) for i, t in enumerate(toks[1:4])])
              and (not ctx.symbolic or all(R.spec(t) == ".8f" for t in toks[1:4])))


@proof("C06", "tables/FACE_MAP-SIDES_MAP-AXIS_PAIRS", functions=["classy_blocks.util.constants:FACE_MAP", "classy_blocks.items.side:Side.__init__"])
def tables(ctx):
    ctx.prove("face-map-sides-are-the-six-faces", all(frozenset(constants.FACE_MAP[s]) == hexa.FACE_SPEC[s] for s in hexa.SIDES) and len(constants.FACE_MAP) == 6)
    ctx.prove("face-map-quads-walk-around-the-face", all(hexa.is_quad_cycle(constants.FACE_MAP[s], s) for s in hexa.SIDES))
    ctx.prove("sides-map-names-the-side-through-edge-i", all(frozenset((i, (i + 1) % 4)) <= hexa.FACE_SPEC[constants.SIDES_MAP[i]] for i in range(4)))
    ctx.prove("axis-pairs-are-blockMesh-edge-order", [tuple(p) for ax in constants.AXIS_PAIRS for p in ax] == hexa.EDGE_GRADING_ORDER)
    ctx.prove("edge-pairs-are-the-12-edges", sorted(map(sorted, constants.EDGE_PAIRS)) == sorted(map(sorted, hexa.EDGE_SETS)))


class _Prog:
    """A fixed script wrapped with the record check_written expects."""

    def __init__(self, mesh, ops, declared=None, deleted=()):
        self.mesh, self.ops, self.deleted = mesh, ops, list(deleted)
        self.patch_kind, self.default_patch, self.merged, self.geometry, self.settings = {}, None, [], {}, {}
        self.declared = declared   # [(op, side, name)] as the script declared them (later entries override)

    @property
    def live_ops(self):
        return [op for op in self.ops if not any(op is d for d in self.deleted)]

    def declared_patches(self):
        out = {}
        if self.declared is not None:
            final = {}
            for op, side, name in self.declared:
                final[(id(op), side)] = (op, side, name)
            for op, side, name in final.values():
                if any(op is o for o in self.live_ops):
                    out.setdefault(name, []).append((op, side))
            return out
        for op in self.live_ops:
            for side, name in op.patch_names.items():
                out.setdefault(name, []).append((op, side))
        return out


@proof("C06", "spheres/auto-geometry-defined", cases=["hemisphere", "copied-hemisphere", "translated-hemisphere"], level="S", samples=1,
       functions=["classy_blocks.construct.shapes.sphere:EighthSphere.geometry", "classy_blocks.construct.shapes.sphere:EighthSphere.geometry_label",
                  "classy_blocks.mesh:Mesh.assemble", "classy_blocks.lists.geometry_list:GeometryList.add"])
def spheres(ctx):
    import classy_blocks as cb

    def chop(s):
        s.chop_axial(count=3)
        s.chop_radial(count=2)
        s.chop_tangential(count=3)

    mesh = Mesh()
    first = cb.Hemisphere([0.0, 0.0, 0.0], [1.0, 0.0, 0.0], [0.0, 0.0, 1.0])
    shapes = [first]
    if ctx.case == "copied-hemisphere":
        shapes = [first.copy()]
    elif ctx.case == "translated-hemisphere":
        first.translate([5.0, 0.0, 0.0])
    ops = []
    for s_ in shapes:
        chop(s_)
        mesh.add(s_)
        ops += list(s_.operations)
    text, _ = write_text(mesh)
    check_written(ctx, _Prog(mesh, ops), text)


# ------------------------------------------------------------------------------ scripts aimed at particular renderings
def _lifted_box(cb, corner, dz=0.5):
    box = cb.Box([0.0, 0.0, 0.0], [1.0, 1.0, 1.0])
    (box.bottom_face if corner < 4 else box.top_face).points[corner % 4].translate([0.0, 0.0, dz if corner >= 4 else -dz])
    return box


PATCH_LISTS = {
    "top-first": ["top", "left", "front"], "top-in-the-middle": ["right", "top", "back"], "bottom-first": ["bottom", "right"],
    "bottom-then-top-then-side": ["bottom", "top", "left"], "sides-only": ["front", "back", "left", "right"], "all-six": ["top", "bottom", "left", "right", "front", "back"],
}


@proof("C06", "scripts/gradings-of-single-edges", cases=[(c, p) for c in range(8) for p in ("start_size", "end_size")], level="S", samples=1,
       functions=["classy_blocks.items.block:Block.format_grading", "classy_blocks.items.wires.manager:WireManagerBase.is_simple", "classy_blocks.items.wires.axis:Axis.is_simple",
                  "classy_blocks.grading.grading:Grading.description", "classy_blocks.mesh:Mesh.write"],
       note="a box with one corner moved along z, chopped with a preserved cell size: exactly one or two of the four edges of a direction "
            "differ (each position in turn); the hex entry must state the model's grading for each of the 12 edges")
def single_edge_gradings(ctx):
    import classy_blocks as cb

    corner, preserve = ctx.case
    box = _lifted_box(cb, corner)
    box.chop(0, count=2)
    box.chop(1, start_size=0.1, c2c_expansion=1.15, preserve=preserve)
    box.chop(2, start_size=0.05, c2c_expansion=1.1, preserve=preserve)
    mesh = Mesh()
    mesh.add(box)
    text, _ = write_text(mesh)
    check_written(ctx, _Prog(mesh, [box]), text)
    kind = F.blocks(F.parse(text))[0]["grading_kind"]
    ctx.prove("differing-edges-need-edgeGrading", kind == "edgeGrading", kind=kind)


@proof("C06", "scripts/patch-lists", cases=list(PATCH_LISTS), level="S", samples=1,
       functions=["classy_blocks.construct.operations.operation:Operation.set_patch", "classy_blocks.lists.patch_list:PatchList.description"],
       note="one patch name given to a list of sides (top/bottom anywhere in the list); a second box beside it with an overriding declaration")
def patch_lists(ctx):
    import classy_blocks as cb

    sides = PATCH_LISTS[ctx.case]
    a, b = cb.Box([0.0, 0.0, 0.0], [1.0, 1.0, 1.0]), cb.Box([1.0, 0.0, 0.0], [2.0, 1.0, 1.0])
    declared = []
    for op in (a, b):
        for ax in range(3):
            op.chop(ax, count=2)
    a.set_patch(list(sides), "many")
    declared += [(a, s_, "many") for s_ in sides if not (s_ == "right")] + [(a, s_, "many") for s_ in sides if s_ == "right"]
    b.set_patch(list(sides[::-1]), "others")
    declared += [(b, s_, "others") for s_ in sides]
    b.set_patch(sides[0], "override")
    declared.append((b, sides[0], "override"))
    mesh = Mesh()
    mesh.add(a)
    mesh.add(b)
    text, _ = write_text(mesh)
    check_written(ctx, _Prog(mesh, [a, b], declared=declared), text)


@proof("C06", "scripts/reassembled-after-deleting", cases=["delete-first", "delete-middle", "delete-last"], level="S", samples=1,
       functions=["classy_blocks.mesh:Mesh.clear", "classy_blocks.lists.face_list:FaceList.clear", "classy_blocks.lists.edge_list:EdgeList.clear",
                  "classy_blocks.lists.vertex_list:VertexList.clear", "classy_blocks.lists.block_list:BlockList.clear", "classy_blocks.mesh:Mesh.delete"],
       note="three boxes with projected sides, edges and corners and patches: assemble, delete one operation, clear, write - the file must "
            "describe the remaining model only (no stale faces, edges or vertices)")
def reassembled(ctx):
    import classy_blocks as cb

    ops = [cb.Box([float(i), 0.0, 0.0], [float(i) + 1, 1.0, 1.0]) for i in range(3)]
    declared = []
    for i, op in enumerate(ops):
        for ax in range(3):
            op.chop(ax, count=2)
        op.project_side("bottom", "floor", edges=(i == 1), points=(i == 2))
        op.project_side("front", "wall_geo")
        op.set_patch("top", f"lid{i}")
        declared.append((op, "top", f"lid{i}"))
        op.top_face.add_edge(0, cb.Arc(np.array([float(i) + 0.5, -0.2, 1.0])))
    mesh = Mesh()
    for op in ops:
        mesh.add(op)
    geo = {"floor": ["type plane", "planeType pointAndNormal", "point (0 0 0)", "normal (0 0 1)"],
           "wall_geo": ["type plane", "planeType pointAndNormal", "point (0 0 0)", "normal (0 1 0)"]}
    for k, v in geo.items():
        mesh.add_geometry({k: v})
    mesh.assemble()
    victim = ops[{"delete-first": 0, "delete-middle": 1, "delete-last": 2}[ctx.case]]
    mesh.delete(victim)
    mesh.clear()
    text, _ = write_text(mesh)
    prog = _Prog(mesh, ops, declared=declared, deleted=[victim])
    prog.geometry = geo
    check_written(ctx, prog, text)


@proof("C06", "scripts/geometry-dictionaries-are-the-callers", cases=["two-meshes-one-dictionary", "dictionary-reused-after-more-geometry"], level="S", samples=1,
       functions=["classy_blocks.lists.geometry_list:GeometryList.add", "classy_blocks.mesh:Mesh.add_geometry", "classy_blocks.lists.geometry_list:GeometryList.description"],
       note="a geometry dictionary given to one mesh, more geometry added to that mesh, the same dictionary given to a second mesh: each file "
            "lists exactly what was declared for its mesh and the caller's dictionary is as the caller wrote it")
def geometry_dictionaries(ctx):
    import classy_blocks as cb

    plane = lambda z: ["type plane", "planeType pointAndNormal", f"point (0 0 {z})", "normal (0 0 1)"]
    mine = {"floor": plane(0)}
    snapshot = {k: list(v) for k, v in mine.items()}

    def one_box(mesh, geo):
        box = cb.Box([0.0, 0.0, 0.0], [1.0, 1.0, 1.0])
        for ax in range(3):
            box.chop(ax, count=2)
        box.project_side("bottom", geo)
        mesh.add(box)
        return box

    first = Mesh()
    b1 = one_box(first, "floor")
    first.add_geometry(mine)
    first.add_geometry({"roof": plane(1)})
    if ctx.case == "dictionary-reused-after-more-geometry":
        first.add_geometry({"wall": plane(2)})
    text1, _ = write_text(first)
    ctx.prove("callers-dictionary-untouched", mine == snapshot, now=sorted(mine))
    second = Mesh()
    b2 = one_box(second, "floor")
    second.add_geometry(mine)
    text2, _ = write_text(second)
    p1 = _Prog(first, [b1])
    p1.geometry = {"floor": plane(0), "roof": plane(1), **({"wall": plane(2)} if ctx.case == "dictionary-reused-after-more-geometry" else {})}
    p1.exact_geometry = True
    check_written(ctx, p1, text1)
    p2 = _Prog(second, [b2])
    p2.geometry = {"floor": plane(0)}
    p2.exact_geometry = True
    check_written(ctx, p2, text2)
    ctx.prove("callers-dictionary-untouched-at-the-end", mine == snapshot, now=sorted(mine))
