"""C01 — blocks that share an edge always agree on its cell count."""
import os
import tempfile

import numpy as np

from classy_blocks.base.exceptions import InconsistentGradingsError, UndefinedGradingsError
from classy_blocks.grading.grading import Grading
from classy_blocks.items import block as block_mod
from classy_blocks.items.block import Block
from classy_blocks.items.vertex import Vertex
from classy_blocks.items.wires import axis as axis_mod
from classy_blocks.items.wires import manager as manager_mod
from classy_blocks.items.wires.wire import Wire
from classy_blocks.lists.block_list import BlockList
from classy_blocks.mesh import Mesh
from contracts.spec import assemblies as A
from contracts.spec import hexa
from pyvc.harness import proof
from pyvc.sym import And, Not, Or

W = "classy_blocks.items.wires.wire:Wire."
MG = "classy_blocks.items.wires.manager:"
BL = "classy_blocks.lists.block_list:BlockList."


# ------------------------------------------------------------------------------ K1-K3 wires
def sym_wire(ctx, tag, axis=0):
    a, b = ctx.int(tag + "a", 0, 99), ctx.int(tag + "b", 0, 99)
    ctx.assume(Not(a == b))
    vs = [Vertex([0.0, 0.0, 0.0], a), Vertex([1.0, 0.0, 0.0], b)]
    return Wire(vs, axis, 0, 1), a, b


@proof("C01", "Wire.is_coincident-is_aligned-add_coincident", functions=[W + "is_coincident", W + "is_aligned", W + "add_coincident"],
       note="vertex indexes are symbolic integers")
def wire_relations(ctx):
    w, a, b = sym_wire(ctx, "w")
    v, c, d = sym_wire(ctx, "v")
    same_pair = Or(And(a == c, b == d), And(a == d, b == c))
    got = w.is_coincident(v)
    ctx.prove("coincident-iff-same-unordered-vertex-pair", same_pair if got else Not(same_pair))
    al, exc = ctx.call(w.is_aligned, v)
    if exc is not None:
        ctx.prove("is_aligned-raises-only-if-not-coincident", isinstance(exc, RuntimeError) and not got)
    else:
        ctx.prove("is_aligned-defined-only-for-coincident", got)
        same_seq = And(a == c, b == d)
        ctx.prove("aligned-iff-same-ordered-pair", same_seq if al else Not(same_seq))
    before = set(w.coincidents)
    w.add_coincident(v)
    ctx.prove("add_coincident-adds-exactly-coincident-wires", (v in w.coincidents) == bool(got) and set(w.coincidents) - {v} == before)
    ctx.prove("other-wire-untouched", len(v.coincidents) == 0)


# ------------------------------------------------------------------------------ K4/K5 neighbour discovery (loop coverage)
def vertices(offset=0):
    return [Vertex(list(map(float, A.COORDS[i])), offset + i) for i in range(8)]


@proof("C01", "Block.add_neighbour/all-wire-pairs-offered", functions=["classy_blocks.items.block:Block.add_neighbour", "classy_blocks.items.block:Block.wire_list"],
       uses=["Wire.add_coincident (stub: records the call; own contract above)", "Axis.add_neighbour (stub: records the call)"])
def add_neighbour_coverage(ctx):
    a, b = Block(0, vertices(0)), Block(1, vertices(100))
    calls, axcalls = [], []
    with ctx.stub(Wire, "add_coincident", lambda self, other: calls.append((self, other)), only_symbolic=False), \
            ctx.stub(axis_mod.Axis, "add_neighbour", lambda self, other: axcalls.append((self, other)), only_symbolic=False):
        a.add_neighbour(b)
        n_self_before = len(calls)
        a.add_neighbour(a)
    wa = [a.wires[min(e)][max(e)] for e in hexa.EDGE_SETS]
    wb = [b.wires[min(e)][max(e)] for e in hexa.EDGE_SETS]
    ctx.prove("wire-list-is-the-12-frame-wires", len(a.wire_list) == 12 and {id(w) for w in a.wire_list} == {id(w) for w in wa})
    ctx.prove("every-pair-of-wires-offered-once", len(calls) == 144 and {(id(x), id(y)) for x, y in calls} == {(id(x), id(y)) for x in wa for y in wb})
    ctx.prove("every-pair-of-axes-offered", {(id(x), id(y)) for x, y in axcalls} == {(id(x), id(y)) for x in a.axes for y in b.axes})
    ctx.prove("block-is-not-its-own-neighbour", len(calls) == n_self_before)


@proof("C01", "BlockList.add/neighbours-both-ways", cases=[0, 1, 2, 3], level="S", functions=[BL + "add", BL + "update_neighbours"],
       uses=["Block.add_neighbour (stub: records the call)"], note="shape bound: lists of 0..3 existing blocks")
def blocklist_add(ctx):
    n = ctx.case
    bl = BlockList()
    calls = []
    blocks = [Block(7, vertices(100 * i)) for i in range(n + 1)]
    with ctx.stub(Block, "add_neighbour", lambda self, other: calls.append((self, other)), only_symbolic=False):
        for b in blocks[:-1]:
            bl.add(b)
        calls.clear()
        new = blocks[-1]
        bl.add(new)
    ctx.prove("index-is-list-position", [b.index for b in bl.blocks] == list(range(n + 1)) and bl.blocks[-1] is new)
    want = {(id(b), id(new)) for b in blocks[:-1]} | {(id(new), id(b)) for b in blocks[:-1]}
    ctx.prove("new-block-paired-with-every-existing-block-both-ways", {(id(x), id(y)) for x, y in calls} == want)


# ------------------------------------------------------------------------------ K6 consistency check
def counted_wire(ctx, tag, n=None, of=None, flipped=False):
    """A wire with a symbolic count.  Its two vertex numbers are free (a wire may run from a lower to a higher
    vertex number or the other way round); a coincident wire (`of`) joins the same two vertices, in the same or
    in the opposite direction."""
    if of is None:
        ia, ib = ctx.int(tag + "_va", 0, 60), ctx.int(tag + "_vb", 0, 60)
        ctx.assume(Not(ctx.eq(ia, ib)))
        vs = [Vertex([0.0, 0.0, 0.0], ia), Vertex([1.0, 0.0, 0.0], ib)]
    else:
        vs = list(of.vertices[::-1] if flipped else of.vertices)
    w = Wire(vs, 0, 0, 1)
    n = ctx.int(tag, 1, 500) if n is None else n
    w.grading.specification = [[1, n, 1]]
    return w, n


@proof("C01", "WireManager.check_consistency", cases=[(m, k) for m in ("propagate", "chop") for k in (0, 1, 2)], level="S",
       functions=[MG + "WireManagerBase.check_consistency", "classy_blocks.grading.grading:Grading.count"],
       note="counts are symbolic integers; shape bound: every wire has k = 0..2 coincident wires")
def check_consistency(ctx):
    mk, k = ctx.case
    wires, counts = [], []
    for i in range(4):
        w, n = counted_wire(ctx, f"n{i}")
        wires.append(w)
        counts.append(n)
    cc = []
    for i, w in enumerate(wires):
        for j in range(k):
            c, m = counted_wire(ctx, f"c{i}_{j}", of=w, flipped=(i + j) % 2 == 1)
            w.coincidents.add(c)
            cc.append((i, m))
    mgr = (manager_mod.WirePropagateManager if mk == "propagate" else manager_mod.WireChopManager)(wires)
    _, exc = ctx.call(mgr.check_consistency)
    same4 = And([counts[0] == c for c in counts[1:]])
    agree = And([counts[i] == m for i, m in cc])
    if exc is None:
        ctx.prove("accepted-implies-four-parallel-wires-agree", same4)
        ctx.prove("accepted-implies-agreement-with-every-coincident-wire", agree)
    else:
        ctx.prove("rejection-is-inconsistent-gradings-error", isinstance(exc, InconsistentGradingsError), exc=repr(exc))
        ctx.prove("rejected-only-if-some-count-differs", Not(And(same4, agree)))
    ctx.prove("pure", all(w.grading.specification[0][1] is counts[i] or ctx.identical(w.grading.specification[0][1], counts[i])
                          for i, w in enumerate(wires)))


@proof("C01", "check_consistency/lifting", functions=["classy_blocks.items.wires.axis:Axis.check_consistency", "classy_blocks.items.block:Block.check_consistency",
                                                        BL + "check_consistency", "classy_blocks.mesh:Mesh.grade"],
       uses=["WireManagerBase.check_consistency (stub: records the call)"])
def consistency_lifting(ctx):
    mesh = Mesh()
    for cell in ((0, 0, 0), (1, 0, 0), (1, 1, 0)):
        op = A.make_operation(A.box_points(cell))
        for ax in range(3):
            op.chop(ax, count=3)
        mesh.add(op)
    mesh.assemble()
    seen = []
    order = []
    with ctx.stub(manager_mod.WireManagerBase, "check_consistency", lambda self: seen.append(self), only_symbolic=False), \
            ctx.stub(BlockList, "grade_blocks", lambda self: order.append("grade_blocks"), only_symbolic=False), \
            ctx.stub(BlockList, "propagate_gradings", lambda self: order.append("propagate"), only_symbolic=False):
        mesh.grade()
    want = {id(ax.wires) for b in mesh.blocks for ax in b.axes}
    ctx.prove("every-axis-of-every-block-checked", {id(m) for m in seen} == want and len(want) == 9)
    ctx.prove("checked-after-grading-and-propagation", order == ["grade_blocks", "propagate"])


# ------------------------------------------------------------------------------ K11 copy / K10 printed count
@proof("C01", "WirePropagateManager.copy_neighbours/count-copied", cases=["aligned", "inverted"],
       functions=[MG + "WirePropagateManager.copy_neighbours", "classy_blocks.grading.grading:Grading.inverted", "classy_blocks.grading.grading:Grading.count"],
       note="multi-section grading with symbolic counts on the coincident wire")
def copy_neighbours(ctx):
    src = Wire([Vertex([0.0, 0.0, 0.0], 3), Vertex([1.0, 0.0, 0.0], 4)], 0, 0, 1)
    n1, n2 = ctx.int("n1", 1, 300), ctx.int("n2", 1, 300)
    e1, e2 = ctx.real("e1", lo=0.1, hi=10), ctx.real("e2", lo=0.1, hi=10)
    src.grading.specification = [[0.4, n1, e1], [0.6, n2, e2]]
    vs = [Vertex([0.0, 0.0, 0.0], 3), Vertex([1.0, 0.0, 0.0], 4)]
    if ctx.case == "inverted":
        vs = vs[::-1]
    tgt = [Wire(vs, 0, 0, 1)] + [Wire([Vertex([0.0, 1.0, 0.0], 10 + i), Vertex([1.0, 1.0, 0.0], 20 + i)], 0, 0, 1) for i in range(3)]
    tgt[0].add_coincident(src)
    mgr = manager_mod.WirePropagateManager(tgt)
    mgr.copy_neighbours()
    ctx.prove("count-equals-the-coincident-wires-count", ctx.eq(tgt[0].grading.count, n1 + n2))
    ctx.prove("source-unchanged", src.grading.specification == [[0.4, n1, e1], [0.6, n2, e2]] or
              And(ctx.eq(src.grading.specification[0][1], n1), ctx.eq(src.grading.specification[1][1], n2)))
    ctx.prove("other-wires-untouched", all(not w.grading.is_defined for w in tgt[1:]))


# ------------------------------------------------------------------------------ scenarios: whole meshes, symbolic counts
def _write(mesh):
    fd, path = tempfile.mkstemp(suffix=".bmd", dir=os.environ.get("TMPDIR"))
    os.close(fd)
    os.remove(path)
    try:
        mesh.write(path)
        with open(path) as fh:
            return fh.read(), None, path
    except Exception as e:  # noqa: BLE001
        return None, e, path
    finally:
        existed = os.path.exists(path)
        if existed:
            os.remove(path)
        _write.file_existed = existed


def theorem_c01(ctx, mesh, text, exc, conflict_possible, again=""):
    """The property on the outcome of Mesh.write for a mesh whose chops define every direction."""
    prove = ctx.prove
    if again:
        prove = lambda clause, cond, **info: ctx.prove(again + clause, cond, **info)
    if exc is not None:
        prove("failure-is-an-inconsistent-grading-error", isinstance(exc, InconsistentGradingsError), exc=repr(exc)[:200])
        prove("nothing-written-on-failure", not _write.file_existed)
        prove("failure-only-if-chops-conflict", conflict_possible)
        return
    edges = A.shared_edges(mesh.blocks)
    for key, lst in sorted(edges.items(), key=lambda kv: sorted(kv[0])):
        if len(lst) > 1:
            first = lst[0][2].grading.count
            prove("shared-edge-same-count-in-every-block",
                      And([ctx.eq(first, w.grading.count) for _, _, w in lst[1:]]), edge=sorted(key))
    for b in mesh.blocks:
        for ax in b.axes:
            prove("four-parallel-wires-carry-the-written-count", And([ctx.eq(w.grading.count, ax.count) for w in ax.wires]),
                      block=b.index, axis=ax.index)
        with ctx.rendering() as R:
            desc = b.description
        shown = desc.split("(")[2].split(")")[0].split()
        prove("hex-entry-prints-the-axis-counts",
                  len(shown) == 3 and And([ctx.eq(R.value(tok), ax.count) for tok, ax in zip(shown, b.axes)]))


# (cells, rotation index of each box, {box: [axes chopped with symbolic count]}, insertion order)
ROW3 = [(0, 0, 0), (1, 0, 0), (2, 0, 0)]
ALL = ("x", "y", "z")   # global lattice directions chopped on a box
SCEN = {
    "two-adjacent-both-chopped": ([(0, 0, 0), (1, 0, 0)], [0, 0], {0: ALL, 1: ALL}, [0, 1]),
    "two-adjacent-in-y": ([(0, 0, 0), (0, 1, 0)], [0, 0], {0: ALL, 1: ALL}, [0, 1]),
    "two-adjacent-in-z": ([(0, 0, 0), (0, 0, 1)], [0, 0], {0: ALL, 1: ALL}, [1, 0]),
    "two-adjacent-in-y-second-rotated": ([(0, 0, 0), (0, 1, 0)], [0, 11], {0: ALL, 1: ALL}, [0, 1]),
    "two-adjacent-second-rotated": ([(0, 0, 0), (1, 0, 0)], [0, 5], {0: ALL, 1: ALL}, [0, 1]),
    "row3-middle-copies": (ROW3, [0, 0, 0], {0: ALL, 1: ("x",), 2: ALL}, [0, 1, 2]),
    "row3-middle-copies-middle-first": (ROW3, [0, 0, 0], {0: ALL, 1: ("x",), 2: ALL}, [1, 0, 2]),
    "row3-middle-rotated": (ROW3, [0, 7, 0], {0: ALL, 1: ("x",), 2: ALL}, [0, 1, 2]),
    "row3-middle-rotated-middle-last": (ROW3, [0, 13, 0], {0: ALL, 1: ("x",), 2: ALL}, [0, 2, 1]),
    "row3-middle-rotated-middle-first": (ROW3, [0, 18, 0], {0: ALL, 1: ("x",), 2: ALL}, [1, 2, 0]),
    "edge-contact-diagonal": ([(0, 0, 0), (1, 1, 0)], [0, 0], {0: ALL, 1: ALL}, [0, 1]),
    "L-shape-three": ([(0, 0, 0), (1, 0, 0), (1, 1, 0)], [0, 3, 0], {0: ALL, 2: ALL}, [2, 1, 0]),
}


@proof("C01", "scenario/write-agrees-or-fails", cases=list(SCEN), level="S",
       functions=["classy_blocks.mesh:Mesh.write", "classy_blocks.mesh:Mesh.grade", BL + "grade_blocks", BL + "propagate_gradings", BL + "check_consistency",
                  MG + "WireChopManager.grade", MG + "WirePropagateManager.grade", "classy_blocks.items.wires.axis:Axis.copy_grading",
                  "classy_blocks.grading.chop:Chop.calculate", "classy_blocks.grading.chop:Chop.copy_preserving"],
       samples=6, timeout=60,
       note="shape bound: the listed assemblies of 2-3 lattice boxes (face and edge contacts, rotated numberings, insertion "
            "orders); every chop count is a symbolic integer, so all consistent and conflicting chop sets are covered")
def scenario(ctx):
    cells, rots, chops, order = SCEN[ctx.case]
    ops = [A.make_operation(A.box_points(c, rot=r)) for c, r in zip(cells, rots)]
    counts = {}
    for bi, dirs in chops.items():
        for g in dirs:
            n = ctx.int(f"n{bi}{g}", 1, 40)
            counts[(bi, g)] = n
            local, _ = A.local_axis_of_global(rots[bi], "xyz".index(g))
            ops[bi].chop(local, count=n)
    mesh = Mesh()
    for i in order:
        mesh.add(ops[i])
    text, exc, _ = _write(mesh)
    theorem_c01(ctx, mesh, text, exc, conflict_possible=True)
    if exc is not None:
        # a second attempt must fail again (no dictionary for a conflicting model, ever)
        text2, exc2, _ = _write(mesh)
        ctx.prove("second-attempt-fails-again", isinstance(exc2, (InconsistentGradingsError, UndefinedGradingsError)))
    else:
        # whenever writing succeeds: also when the same mesh is written once more
        text2, exc2, _ = _write(mesh)
        ctx.prove("second-write-succeeds-too", exc2 is None, exc=repr(exc2)[:200])
        theorem_c01(ctx, mesh, text2, exc2, conflict_possible=False, again="second-write/")


@proof("C01", "scenario/size-based-chops/written-moved-written", cases=list(__import__("contracts.spec.regrade", fromlist=["CASES"]).CASES), level="S", samples=1,
       functions=["classy_blocks.grading.chop:Chop.calculate", "classy_blocks.grading.chop:Chop.copy_preserving", BL + "grade_blocks",
                  MG + "WireChopManager.grade", "classy_blocks.items.wires.axis:Axis.copy_grading"],
       note="executed contract (no symbolic content): size-based chops, write, move vertices so that the chopped edges change length, "
            "write again - the theorem of C01 on the second file (round 5: counts remembered on a Chop between gradings)")
def written_moved_written(ctx):
    from contracts.spec import regrade

    r = regrade.write_move_write(ctx.case)
    ctx.prove("first-write-succeeds", r["first"][1] is None, exc=repr(r["first"][1])[:200])
    text, exc = r["second"]
    ctx.prove("second-write-succeeds", exc is None, exc=repr(exc)[:200])
    if exc is None:
        theorem_c01(ctx, r["mesh"], text, exc, conflict_possible=False, again="second-write/")
        ctx.prove("second-write/counts-are-those-of-a-fresh-model-of-the-moved-geometry",
                  [ax.count for b in r["mesh"].blocks for ax in b.axes] == [ax.count for b in r["fresh"].blocks for ax in b.axes])
