"""C04 — cell-size distribution matches on shared edges and honours 'preserve'."""
import math
import os
import re
import tempfile

import numpy as np

from classy_blocks.base.exceptions import InconsistentGradingsError
from classy_blocks.construct.flat.face import Face
from classy_blocks.construct.operations.operation import Operation
from classy_blocks.grading.grading import Grading
from classy_blocks.items.block import Block
from classy_blocks.items.vertex import Vertex
from classy_blocks.items.wires import manager as manager_mod
from classy_blocks.items.wires.wire import Wire
from classy_blocks.mesh import Mesh
from contracts.spec import assemblies as A
from contracts.spec import hexa
from pyvc.harness import proof
from pyvc.sym import And, Not, Or

MG = "classy_blocks.items.wires.manager:"


def close(ctx, x, y):
    """Equal up to the library's own comparison tolerance (Grading.__eq__: isclose, rel_tol 1e-7)."""
    if not ctx.symbolic:
        return abs(float(x) - float(y)) <= 1e-6 * max(abs(float(x)), abs(float(y)), 1e-300)
    if ctx.identical(x, y):
        return True
    d = abs(x - y)
    tol = ctx.const(1e-6)
    return Or(d <= tol * abs(x), d <= tol * abs(y))


def spec_equal(ctx, a, b):
    return len(a) == len(b) and And([close(ctx, x, y) for sa, sb in zip(a, b) for x, y in zip(sa, sb)])


def spec_inverse(ctx, a, b):
    """b is a traversed the other way: sections reversed, expansion reciprocal."""
    return len(a) == len(b) and And([And(close(ctx, sa[0], sb[0]), close(ctx, sa[1], sb[1]), close(ctx, sa[2] * sb[2], 1))
                                     for sa, sb in zip(a, reversed(b))])


# ------------------------------------------------------------------------------ preserved quantity across orientation flips
@proof("C04", "Chop.copy_preserving/same-physical-end-after-any-number-of-flips", cases=[(p, a, b) for p in ("start_size", "end_size", "c2c_expansion", "total_expansion")
                                                                                          for a in (False, True) for b in (False, True)],
       functions=["classy_blocks.grading.chop:Chop.copy_preserving", "classy_blocks.grading.chop:Chop.invert"],
       note="a chop handed on twice (block to neighbour to neighbour), each hop aligned or inverted; the calculated values of every "
            "block are symbolic (they depend on that block's edge lengths): what the last copy asks for is the user's preserved "
            "quantity, at the physically same end of the edge")
def copy_preserving_hops(ctx):
    from classy_blocks.grading.chop import Chop

    preserve, inv1, inv2 = ctx.case
    n = ctx.int("n", 1, 200)
    given = ctx.real("given", lo=0.001, hi=100)
    chop = Chop(count=n, preserve=preserve, **({preserve: given} if preserve != "count" else {}))
    res = lambda tag, **fixed: {**{"count": n, "start_size": ctx.real(tag + "s", lo=0.001, hi=100), "end_size": ctx.real(tag + "e", lo=0.001, hi=100),
                                   "c2c_expansion": ctx.real(tag + "c", lo=0.1, hi=10), "total_expansion": ctx.real(tag + "E", lo=0.01, hi=100)}, **fixed}
    chop.results = res("r0", **{preserve: given})
    c1 = chop.copy_preserving(inverted=inv1)

    def expect(flipped):
        """what a copy must ask for when it runs the same way (False) / the opposite way (True) as the user's chop"""
        if preserve in ("start_size", "end_size"):
            other = {"start_size": "end_size", "end_size": "start_size"}[preserve]
            return (other if flipped else preserve), given
        return preserve, (1 / given if flipped else given)

    def asks_for(c, flipped):
        name, value = expect(flipped)
        others = [k for k in ("start_size", "end_size", "c2c_expansion", "total_expansion") if k != name]
        if getattr(c, name) is None:
            return False
        return And(ctx.eq(getattr(c, name), value), all(getattr(c, k) is None for k in others), ctx.eq(c.count, n))

    ctx.prove("first-copy-asks-for-the-users-quantity-at-the-same-physical-end", asks_for(c1, inv1))
    # the neighbour calculates its own values (any), but the quantity it was asked to realise is realised
    name1, value1 = expect(inv1)
    c1.results = res("r1", **{name1: value1})
    c2 = c1.copy_preserving(inverted=inv2)
    ctx.prove("second-copy-asks-for-the-users-quantity-at-the-same-physical-end", asks_for(c2, inv1 != inv2))
    ctx.prove("originals-untouched", ctx.eq(getattr(chop, preserve), given) and chop.preserve == preserve)


# ------------------------------------------------------------------------------ G2 copy between coincident wires
@proof("C04", "copy_neighbours/spec-copied-or-inverted", cases=["aligned", "inverted"],
       functions=[MG + "WirePropagateManager.copy_neighbours", "classy_blocks.grading.grading:Grading.inverted", "classy_blocks.items.wires.wire:Wire.is_aligned"])
def copy_spec(ctx):
    src = Wire([Vertex([0.0, 0.0, 0.0], 3), Vertex([1.0, 0.0, 0.0], 4)], 0, 0, 1)
    n1, n2 = ctx.int("n1", 1, 300), ctx.int("n2", 1, 300)
    e1, e2 = ctx.real("e1", lo=0.1, hi=10), ctx.real("e2", lo=0.1, hi=10)
    spec = [[0.4, n1, e1], [0.6, n2, e2]]
    src.grading.specification = [list(s) for s in spec]
    vs = [Vertex([0.0, 0.0, 0.0], 3), Vertex([1.0, 0.0, 0.0], 4)]
    if ctx.case == "inverted":
        vs = vs[::-1]
    tgt = Wire(vs, 0, 0, 1)
    tgt.add_coincident(src)
    others = [Wire([Vertex([0.0, 1.0, 0.0], 10 + i), Vertex([1.0, 1.0, 0.0], 20 + i)], 0, 0, 1) for i in range(3)]
    manager_mod.WirePropagateManager([tgt] + others).copy_neighbours()
    got = tgt.grading.specification
    if ctx.case == "aligned":
        ctx.prove("same-sections-same-expansions", spec_equal(ctx, got, spec))
    else:
        ctx.prove("sections-reversed-expansions-reciprocal", spec_inverse(ctx, got, spec))
    ctx.prove("source-untouched", spec_equal(ctx, src.grading.specification, spec))


# ------------------------------------------------------------------------------ scenarios
SC = {
    # cells, rotations, {box: {dir: (count symbol, expansion symbol or None)}}, order
    "two-boxes-one-chopped": ([(0, 0, 0), (1, 0, 0)], [0, 0], {0: {"x": ("a", None), "y": ("b", "Eb"), "z": ("c", "Ec")}, 1: {"x": ("d", "Ed")}}, [0, 1]),
    "two-boxes-second-flipped": ([(0, 0, 0), (1, 0, 0)], [0, 10], {0: {"x": ("a", None), "y": ("b", "Eb"), "z": ("c", "Ec")}, 1: {"x": ("d", "Ed")}}, [1, 0]),
    "two-boxes-second-rotated": ([(0, 0, 0), (1, 0, 0)], [0, 7], {0: {"x": ("a", None), "y": ("b", "Eb"), "z": ("c", "Ec")}, 1: {"x": ("d", "Ed")}}, [0, 1]),
    "row3-middle-flipped": ([(0, 0, 0), (1, 0, 0), (2, 0, 0)], [0, 13, 0], {0: {"x": ("a", None), "y": ("b", "Eb"), "z": ("c", "Ec")}, 1: {"x": ("d", None)}, 2: {"x": ("e", "Ee")}}, [0, 1, 2]),
    "both-chopped-same-family": ([(0, 0, 0), (1, 0, 0)], [0, 0], {0: {"x": ("a", None), "y": ("b", "Eb"), "z": ("c", "Ec")}, 1: {"x": ("d", None), "y": ("b", "Fb"), "z": ("c", "Ec")}}, [0, 1]),
}


@proof("C04", "scenario/shared-edges-same-size-sequence", cases=list(SC), level="S", samples=4, timeout=60,
       functions=["classy_blocks.mesh:Mesh.grade", MG + "WireChopManager.grade", MG + "WirePropagateManager.grade", "classy_blocks.items.wires.axis:Axis.copy_grading",
                  "classy_blocks.grading.chop:Chop.copy_preserving", "classy_blocks.grading.grading:Grading.add_chop"],
       note="shape bound: listed assemblies; counts and total expansions symbolic; equal edge lengths (unit lattice)")
def scenario(ctx):
    cells, rots, chops, order = SC[ctx.case]
    ops = [A.make_operation(A.box_points(c, rot=r)) for c, r in zip(cells, rots)]
    syms = {}

    def sym(name, kind):
        if name not in syms:
            syms[name] = ctx.int(name, 2, 30) if kind == "n" else ctx.real(name, lo=0.2, hi=5)
        return syms[name]

    for bi, dirs in chops.items():
        for g, (cn, en) in dirs.items():
            local, sgn = A.local_axis_of_global(rots[bi], "xyz".index(g))
            kw = {"count": sym(cn, "n")}
            if en is not None:
                E = sym(en, "E")
                kw["total_expansion"] = E if sgn > 0 else 1 / E   # expansion stated along the global direction
            ops[bi].chop(local, **kw)
    mesh = Mesh()
    for i in order:
        mesh.add(ops[i])
    mesh.assemble()
    _, exc = ctx.call(mesh.grade)
    if exc is not None:
        ctx.prove("failure-only-as-inconsistent-gradings", isinstance(exc, InconsistentGradingsError), exc=repr(exc)[:200])
        ctx.prove("failure-only-where-two-chopped-blocks-disagree", ctx.case == "both-chopped-same-family")
        return
    for key, lst in sorted(A.shared_edges(mesh.blocks).items(), key=lambda kv: sorted(kv[0])):
        if len(lst) < 2:
            continue
        w0 = lst[0][2]
        for _, _, w in lst[1:]:
            same_dir = w.vertices[0].index == w0.vertices[0].index
            ok = spec_equal(ctx, w.grading.specification, w0.grading.specification) if same_dir else \
                spec_inverse(ctx, w.grading.specification, w0.grading.specification)
            ctx.prove("shared-edge-same-physical-cell-sizes", ok, edge=sorted(key))


# ------------------------------------------------------------------------------ G4 simple vs edge grading
@proof("C04", "Block.format_grading", cases=["all-equal", "one-wire-differs", "free"],
       functions=["classy_blocks.items.block:Block.format_grading", MG + "WireManagerBase.is_simple", MG + "WireManagerBase.format_single",
                  MG + "WireManagerBase.format_all", "classy_blocks.grading.grading:Grading.__eq__", "classy_blocks.grading.grading:Grading.description"],
       note="expansions of the 12 wires symbolic; 'free': no relation assumed between them")
def format_grading(ctx):
    vs = [Vertex(list(map(float, A.COORDS[i])), i) for i in range(8)]
    blk = Block(0, vs)
    E = {}
    for ai, ax in enumerate(blk.axes):
        base = ctx.real(f"E{ai}", lo=0.1, hi=10)
        for wi, w in enumerate(ax.wires):
            if ctx.case == "all-equal":
                e = base
            elif ctx.case == "one-wire-differs":
                e = base * 2 if (ai, wi) == (1, 2) else base
            else:
                e = ctx.real(f"E{ai}{wi}", lo=0.1, hi=10)
            w.grading.specification = [[1, 5, e]]
            E[tuple(w.corners)] = e
    with ctx.rendering() as R:
        text = blk.format_grading()
    kind = text.split("(")[0].strip()
    toks = text[text.index("(") + 1: text.rindex(")")].split()
    close = lambda a, b: ctx.le(abs(a - b), 1e-7 * (abs(a) if True else 1)) if not ctx.symbolic else (abs(a - b) <= ctx.const(1e-7) * abs(a)) | (abs(a - b) <= ctx.const(1e-7) * abs(b))
    if kind == "simpleGrading":
        ctx.prove("simple-only-if-four-wires-of-each-direction-agree",
                  And([close(ax.wires[0].grading.specification[0][2], w.grading.specification[0][2]) for ax in blk.axes for w in ax.wires[1:]]))
        ctx.prove("simple-prints-one-expansion-per-direction",
                  len(toks) == 3 and And([ctx.eq(R.value(t), ax.wires[0].grading.specification[0][2]) for t, ax in zip(toks, blk.axes)]))
        ctx.prove("not-simple-in-the-differing-case", ctx.case != "one-wire-differs")
    else:
        ctx.prove("keyword", kind == "edgeGrading")
        # the 12 entries in blockMesh's edge order
        ctx.prove("edge-grading-lists-the-12-edges-in-blockMesh-order",
                  len(toks) == 12 and And([ctx.eq(R.value(t), E[pair] if pair in E else E[pair[::-1]])
                                           for t, pair in zip(toks, hexa.EDGE_GRADING_ORDER)]))
        ctx.prove("wires-run-in-blockMesh-edge-direction", all(pair in E for pair in hexa.EDGE_GRADING_ORDER))
        ctx.prove("edge-grading-not-used-when-all-equal", ctx.case != "all-equal")


# ------------------------------------------------------------------------------ bounded: unequal edge lengths, preserve, written file
def sizes(L, spec):
    """Cell sizes of a multi-section grading on an edge of length L (blockMesh's law)."""
    out = []
    for ratio, n, E in spec:
        n = int(n)
        Ls = L * ratio
        if n == 1 or abs(E - 1) < 1e-12:
            out += [Ls / n] * n
        else:
            c = E ** (1 / (n - 1))
            s = Ls * (1 - c) / (1 - c ** n)
            out += [s * c ** i for i in range(n)]
    return out


@proof("C04", "bounded/preserve-and-shared-edges-on-unequal-lengths", level="B", samples=60,
       cases=[(p, f) for p in ("start_size", "end_size", "c2c_expansion") for f in ("aligned", "flipped", "flipped-then-aligned", "aligned-then-flipped", "flipped-then-flipped", "aligned; graded, vertex moved, written")],
       functions=[MG + "WireChopManager.grade", "classy_blocks.grading.chop:Chop.copy_preserving", "classy_blocks.items.wires.axis:Axis.copy_grading"],
       note="bounded stand-in only: a loft between differently scaled/jittered faces (four unequal parallel edges) next to a second "
            "block that is numbered the same way or flipped; realised sizes decoded from Wire.grading with the wire length")
def preserve_bounded(ctx):
    preserve, flip = ctx.case
    rng = ctx.rng
    j = lambda s=0.15: np.array([rng.uniform(-s, s) for _ in range(3)])
    P = np.array([[0, 0, 0], [1, 0, 0], [1, 1, 0], [0, 1, 0], [0, 0, 1.6], [1.3, 0, 1.2], [1.2, 1.4, 1.9], [0, 1.1, 1.4]], dtype=float)
    P = P + np.array([j() for _ in range(8)])
    # second block shares the face x-max (corners 1,2,6,5) and extends in +x
    Q = P.copy()
    shift = np.array([1.5, 0, 0])
    Q[0], Q[3], Q[4], Q[7] = P[1], P[2], P[5], P[6]
    Q[1], Q[2], Q[5], Q[6] = P[1] + shift + j(), P[2] + shift + j(), P[5] + shift + j(), P[6] + shift + j()
    flipped_rot = [i for i in range(24) if A.local_axis_of_global(i, 2) == (2, -1) and A.local_axis_of_global(i, 0)[0] == 0][0]
    rot = 0 if flip.startswith("aligned") else flipped_rot
    # an optional third block beyond the second one: the chop reaches it second-hand, through the second block
    rot3 = None
    if "-then-" in flip:
        rot3 = 0 if flip.endswith("aligned") else flipped_rot
        T = Q.copy()
        T[0], T[3], T[4], T[7] = Q[1], Q[2], Q[5], Q[6]
        T[1], T[2], T[5], T[6] = Q[1] + shift + j(), Q[2] + shift + j(), Q[5] + shift + j(), Q[6] + shift + j()
        T = T[list(A.ROT[rot3])]
    Q = Q[list(A.ROT[rot])]
    op1, op2 = A.make_operation(P), A.make_operation(Q)
    size = rng.uniform(0.02, 0.1)
    # cells grow away from the end whose size is given (otherwise the size cannot be realised on the edge)
    kw = {"start_size": size, "c2c_expansion": rng.uniform(1.05, 1.3)} if preserve != "end_size" else {"end_size": size, "c2c_expansion": rng.uniform(0.75, 0.95)}
    op1.chop(2, preserve=preserve, **kw)     # along z (block 1's axis 2)
    op1.chop(0, count=4)
    op1.chop(1, count=5)
    lx, _ = A.local_axis_of_global(rot, 0)
    op2.chop(lx, count=3)
    mesh = Mesh()
    mesh.add(op1)
    mesh.add(op2)
    if rot3 is not None:
        op3 = A.make_operation(T)
        op3.chop(A.local_axis_of_global(rot3, 0)[0], count=2)
        mesh.add(op3)
    mesh.assemble()
    mesh.grade()
    if "vertex moved" in flip:
        # the mesh was graded, then a vertex is moved (as optimisation does): what is written belongs to the geometry written
        mesh.blocks[0].vertices[6].translate(np.array([0.05, -0.04, 0.3]))
        mesh.blocks[0].vertices[4].translate(np.array([0.0, 0.0, -0.25]))
        fd, path = tempfile.mkstemp(suffix=".bmd")
        os.close(fd)
        try:
            mesh.write(path)
        finally:
            os.remove(path)
    b1, b2 = mesh.blocks[:2]
    ax = b1.axes[2]
    for w in ax.wires:
        sz = sizes(w.length, w.grading.specification)
        ctx.prove("count-equals-axis-count", len(sz) == ax.count)
        if preserve == "start_size":
            ctx.prove("first-cell-size-realised-on-every-parallel-edge", abs(sz[0] - size) <= 1e-4 * size, got=sz[0], want=size, L=w.length)
        elif preserve == "end_size":
            ctx.prove("last-cell-size-realised-on-every-parallel-edge", abs(sz[-1] - size) <= 1e-4 * size, got=sz[-1], want=size, L=w.length)
        else:
            ratios = [sz[i + 1] / sz[i] for i in range(len(sz) - 1)]
            ctx.prove("cell-to-cell-ratio-kept-on-every-parallel-edge", all(abs(r - kw["c2c_expansion"]) <= 1e-4 for r in ratios) or len(sz) < 2)
    # every shared edge: the same physical sequence from either block
    for key, lst in A.shared_edges(mesh.blocks).items():
        if len(lst) < 2:
            continue
        (_, _, w0), (_, _, w1) = lst[0], lst[1]
        s0, s1 = sizes(w0.length, w0.grading.specification), sizes(w1.length, w1.grading.specification)
        if w0.vertices[0].index != w1.vertices[0].index:
            s1 = s1[::-1]
        ctx.prove("shared-edge-same-physical-cell-sizes", len(s0) == len(s1) and all(abs(a - b) <= 1e-6 * max(a, b) for a, b in zip(s0, s1)),
                  edge=sorted(key))
    # the propagated block realises the preserved size at the geometrically same end
    reached = [(b2, rot)] + ([(mesh.blocks[2], rot3)] if rot3 is not None else [])
    for hop, (bk, rk) in enumerate(reached):
        l2, sgn = A.local_axis_of_global(rk, 2)
        for w in bk.axes[l2].wires:
            sz = sizes(w.length, w.grading.specification)
            if sgn < 0:
                sz = sz[::-1]
            if preserve == "start_size":
                ctx.prove("propagated-block-keeps-the-size-at-the-same-end", abs(sz[0] - size) <= 1e-4 * size, got=sz[0], want=size, hop=hop + 1)
            elif preserve == "end_size":
                ctx.prove("propagated-block-keeps-the-size-at-the-same-end", abs(sz[-1] - size) <= 1e-4 * size, got=sz[-1], want=size, hop=hop + 1)
    # simple grading only if the four edges really have equal gradings
    for b in mesh.blocks:
        text = b.format_grading()
        if text.startswith("simpleGrading"):
            for a_ in b.axes:
                ctx.prove("simple-grading-only-for-equal-edges",
                          all(abs(w.grading.specification[0][2] - a_.wires[0].grading.specification[0][2]) <= 1e-6 * abs(w.grading.specification[0][2]) for w in a_.wires))


@proof("C04", "scenario/size-based-chops/written-moved-written", cases=[(c, p) for c in __import__("contracts.spec.regrade", fromlist=["CASES"]).CASES for p in ("start_size", "end_size")],
       level="S", samples=1,
       functions=["classy_blocks.items.edges.line:LineEdge.length", "classy_blocks.items.wires.wire:Wire.length", "classy_blocks.grading.chop:Chop.calculate",
                  "classy_blocks.items.wires.manager:WireChopManager.grade"],
       note="executed contract (no symbolic content): a preserved cell size on edges of unequal length, write, move vertices so that "
            "every edge gets another length, write again - the second file realises the preserved size on the edges as they are now "
            "(round 5: an edge length remembered from the first grading)")
def written_moved_written(ctx):
    from contracts.spec import regrade

    case, preserve = ctx.case
    r = regrade.write_move_write(case, preserve=preserve)
    text, exc = r["second"]
    ctx.prove("second-write-succeeds", exc is None, exc=repr(exc)[:200])
    if exc is not None:
        return
    ok = True
    worst = 0.0
    for b in r["mesh"].blocks:
        for w in b.axes[0].wires:
            L = float(np.linalg.norm(np.asarray(w.vertices[1].position, dtype=float) - np.asarray(w.vertices[0].position, dtype=float)))
            spec = w.grading.specification
            # one division: [length_ratio, count, total_expansion]
            n, g = int(spec[0][1]), float(spec[0][2])
            r_c2c = g ** (1.0 / (n - 1)) if n > 1 else 1.0
            first = L / n if abs(r_c2c - 1) < 1e-12 else L * (r_c2c - 1) / (r_c2c ** n - 1)
            size = first if preserve == "start_size" else first * g
            worst = max(worst, abs(size - 0.02) if preserve == "start_size" else 0.0)
            if preserve == "start_size" and abs(size - 0.02) > 1e-6:
                ok = False
    ctx.prove("second-write/preserved-start-size-realised-on-every-x-edge-as-it-is-now", ok, worst=worst)
    ctx.prove("second-write/same-file-as-a-fresh-model-of-the-moved-geometry", "".join(text.split()) == "".join(r["fresh_written"][0].split()))
