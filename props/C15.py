"""C15 — smoothing moves only free interior points, to their neighbours' average."""
import itertools
import math

import numpy as np

import classy_blocks as cb
from classy_blocks.mesh import Mesh
from classy_blocks.optimize.grid import HexGrid, QuadGrid
from classy_blocks.optimize.smoother import MeshSmoother, SketchSmoother
from contracts.spec import hexa
from pyvc.harness import proof
from pyvc.sym import And, Not, Or

SM = "classy_blocks.optimize.smoother:"
GR = "classy_blocks.optimize.grid:"


# ------------------------------------------------------------------------------ topologies (index level)
def structured(n, m):
    """(n x m) quads on an (n+1) x (m+1) lattice, row-major point numbering."""
    idx = lambda i, j: j * (n + 1) + i
    quads = [[idx(i, j), idx(i + 1, j), idx(i + 1, j + 1), idx(i, j + 1)] for j in range(m) for i in range(n)]
    pts = [[float(i), float(j), 0.0] for j in range(m + 1) for i in range(n + 1)]
    return pts, quads


def l_shape():
    pts, quads = structured(3, 3)
    quads = [q for k, q in enumerate(quads) if k not in (8,)]      # remove the upper right cell -> re-entrant corner at point 10
    return pts[:15], quads                                         # point 15 (its outer corner) is no longer used


def pentagon_fan():
    """Unstructured: five quads around one interior point (valence 5)."""
    import math

    pts = [[0.0, 0.0, 0.0]]
    for k in range(10):
        a = 2 * math.pi * k / 10
        r = 2.0 if k % 2 == 0 else 1.7
        pts.append([r * math.cos(a), r * math.sin(a), 0.0])
    quads = [[0, 1 + (2 * k) % 10, 1 + (2 * k + 1) % 10, 1 + (2 * k + 2) % 10] for k in range(5)]
    return pts, quads


QUAD_TOPOS = {"2x2": structured(2, 2), "3x3": structured(3, 3), "4x3": structured(4, 3), "5x5": structured(5, 5), "L-shape": l_shape(), "pentagon-fan": pentagon_fan()}


def _slender_rotated():
    """three slender quads (6 x 1) joined along their short edges, turned 45 degrees in their plane and tilted in space"""
    pts, quads = structured(3, 1)
    P = np.array(pts, dtype=float) * np.array([6.0, 1.0, 1.0])
    c45, tilt = math.cos(math.pi / 4), 0.6
    Rz = np.array([[c45, -c45, 0.0], [c45, c45, 0.0], [0.0, 0.0, 1.0]])
    Rx = np.array([[1.0, 0.0, 0.0], [0.0, math.cos(tilt), -math.sin(tilt)], [0.0, math.sin(tilt), math.cos(tilt)]])
    return (P @ Rz.T @ Rx.T + np.array([3.0, -2.0, 1.0])).tolist(), quads


QUAD_TOPOS["3x1-slender-rotated"] = _slender_rotated()


def spec_quad_graph(quads, npts):
    edges = {}
    for q in quads:
        for k in range(4):
            e = frozenset((q[k], q[(k + 1) % 4]))
            edges[e] = edges.get(e, 0) + 1
    boundary = {v for e, c in edges.items() if c == 1 for v in e}
    nbrs = {v: set() for v in range(npts)}
    for e in edges:
        a, b = tuple(e)
        nbrs[a].add(b)
        nbrs[b].add(a)
    return boundary, nbrs


def hex_lattice(nx, ny, nz, skip=()):
    idx = lambda i, j, k: (k * (ny + 1) + j) * (nx + 1) + i
    pts = [[float(i), float(j), float(k)] for k in range(nz + 1) for j in range(ny + 1) for i in range(nx + 1)]
    cells = []
    for k in range(nz):
        for j in range(ny):
            for i in range(nx):
                if (i, j, k) in skip:
                    continue
                cells.append([idx(i, j, k), idx(i + 1, j, k), idx(i + 1, j + 1, k), idx(i, j + 1, k),
                              idx(i, j, k + 1), idx(i + 1, j, k + 1), idx(i + 1, j + 1, k + 1), idx(i, j + 1, k + 1)])
    return pts, cells


def spec_hex_graph(cells, npts):
    faces, edges = {}, set()
    for c in cells:
        for s in hexa.SIDES:
            f_ = frozenset(c[i] for i in hexa.FACE_SPEC[s])
            faces[f_] = faces.get(f_, 0) + 1
        for e in hexa.EDGE_SETS:
            a, b = tuple(e)
            edges.add(frozenset((c[a], c[b])))
    boundary = {v for f_, n in faces.items() if n == 1 for v in f_}
    nbrs = {v: set() for v in range(npts)}
    for e in edges:
        a, b = tuple(e)
        nbrs[a].add(b)
        nbrs[b].add(a)
    return boundary, nbrs


HEX_TOPOS = {"2x2x2": hex_lattice(2, 2, 2), "3x3x3": hex_lattice(3, 3, 3), "3x2x2-L": hex_lattice(3, 2, 2, skip=[(2, 1, 0), (2, 1, 1)])}


def _mixed_numbering(topo):
    """the same lattice with every cell numbered in its own one of the 24 valid ways"""
    from contracts.spec import assemblies as _A

    pts, cells = topo
    return pts, [[c[i] for i in _A.ROT[(7 * k + 3) % 24]] for k, c in enumerate(cells)]


HEX_TOPOS["2x2x2-mixed-numbering"] = _mixed_numbering(HEX_TOPOS["2x2x2"])
HEX_TOPOS["3x2x2-L-mixed-numbering"] = _mixed_numbering(HEX_TOPOS["3x2x2-L"])
QUAD_SIDES = {"front": (0, 1), "right": (1, 2), "back": (2, 3), "left": (3, 0)}


@proof("C15", "grid/boundary-and-neighbours", cases=[("quad", k) for k in QUAD_TOPOS] + [("hex", k) for k in HEX_TOPOS], level="S", samples=1,
       functions=["classy_blocks.optimize.cell:CellBase.boundary", "classy_blocks.optimize.cell:CellBase.get_common_side", "classy_blocks.optimize.cell:CellBase.add_neighbour",
                  "classy_blocks.optimize.junction:Junction.is_boundary", "classy_blocks.optimize.junction:Junction.add_neighbour", "classy_blocks.optimize.junction:Junction.add_cell",
                  GR + "GridBase._bind_cell_neighbours", GR + "GridBase._bind_junction_cells", GR + "GridBase._bind_junction_neighbours"],
       note="topology-bounded: structured maps up to 5x5, an L-shape with a re-entrant corner, a valence-5 fan; hex lattices up to "
            "3x3x3 and an L-shaped one; oracle = independent edge/face counting on the index lists")
def graph(ctx):
    kind, name = ctx.case
    if kind == "quad":
        pts, cells = QUAD_TOPOS[name]
        grid = QuadGrid(np.array(pts), [list(c) for c in cells])
        boundary, nbrs = spec_quad_graph(cells, len(pts))
    else:
        pts, cells = HEX_TOPOS[name]
        grid = HexGrid(np.array(pts), [list(c) for c in cells])
        boundary, nbrs = spec_hex_graph(cells, len(pts))
    ctx.prove("boundary-points-are-those-on-a-side-owned-by-one-cell", {j.index for j in grid.junctions if j.is_boundary} == boundary)
    ctx.prove("neighbours-are-the-edge-connected-points-not-diagonals", all({n.index for n in j.neighbours} == nbrs[j.index] for j in grid.junctions))
    ctx.prove("no-neighbour-listed-twice", all(len(j.neighbours) == len({id(n) for n in j.neighbours}) for j in grid.junctions))
    ctx.prove("junction-cells-are-the-cells-containing-the-point", all({id(c) for c in j.cells} == {id(c) for c in grid.cells if j.index in c.indexes} for j in grid.junctions))
    # cell neighbours: on each side the cell that owns the same points, whatever its own numbering; none where there is none
    sides = {s_: tuple(hexa.FACE_SPEC[s_]) for s_ in hexa.SIDES} if kind == "hex" else QUAD_SIDES
    ok, detail = True, []
    for c in grid.cells:
        for s_, corners in sides.items():
            want = [d for d in grid.cells if d is not c and {c.indexes[i] for i in corners} <= set(d.indexes)]
            got = c.neighbours[s_]
            if (got is None) != (len(want) == 0) or (got is not None and got is not want[0]):
                ok = False
                detail.append((grid.cells.index(c), s_))
    ctx.prove("cell-neighbour-on-each-side-is-the-cell-sharing-that-side", ok, wrong=detail[:6])


# ------------------------------------------------------------------------------ smoothing step on symbolic positions
def sym_positions(ctx, pts, jitter_only_interior=None):
    out = []
    for i, p in enumerate(pts):
        out.append([ctx.real(f"x{i}", lo=p[0] - 0.3, hi=p[0] + 0.3), ctx.real(f"y{i}", lo=p[1] - 0.3, hi=p[1] + 0.3), ctx.real(f"z{i}", lo=-0.3, hi=0.3)])
    return np.array(out, dtype=object if ctx.symbolic else float)


@proof("C15", "SketchSmoother.smooth/fixed-boundary-and-average", cases=[(t, it, fx) for t in ("3x3", "L-shape", "pentagon-fan", "4x3") for it in (1, 2) for fx in ("none", "one-fixed", "fixed-twice")],
       functions=[SM + "SmootherBase.smooth", SM + "SmootherBase.__init__", SM + "SmootherBase.fix_indexes", SM + "SketchSmoother.backport",
                  "classy_blocks.construct.flat.sketches.mapped:MappedSketch.positions", "classy_blocks.construct.flat.sketches.mapped:MappedSketch.update"],
       samples=5, timeout=60, note="all point coordinates symbolic")
def sketch_smooth(ctx):
    topo, iters, fx = ctx.case
    pts, quads = QUAD_TOPOS[topo]
    P = sym_positions(ctx, pts)
    sketch = cb.MappedSketch(P, [list(q) for q in quads])
    sm = SketchSmoother(sketch)
    boundary, nbrs = spec_quad_graph(quads, len(pts))
    interior = [i for i in range(len(pts)) if i not in boundary]
    fixed = set()
    if fx != "none" and interior:
        sm.fix_indexes([interior[0]])
        fixed.add(interior[0])
        if fx == "fixed-twice" and len(interior) > 1:
            sm.fix_indexes([interior[-1]])       # a later call adds to, not replaces, the fixed set
            fixed.add(interior[-1])
    sm.smooth(iters)
    after = sketch.positions
    for i in range(len(pts)):
        if i in boundary or i in fixed:
            ctx.prove("boundary-and-fixed-points-stay-exactly", ctx.eq(after[i], P[i], tol=0), point=i)
    # oracle: Gauss-Seidel sweep in point order over the free interior points
    cur = [np.array(p, dtype=object) for p in P]
    for _ in range(iters):
        for i in interior:
            if i in fixed:
                continue
            acc = 0
            for n in sorted(nbrs[i]):
                acc = acc + cur[n]
            cur[i] = acc / len(nbrs[i])
    for i in interior:
        if i not in fixed:
            ctx.prove("free-interior-point-is-the-average-of-its-edge-neighbours", ctx.eq(after[i], cur[i], tol=1e-9), point=i)
    # copy-back: every face that shares a point got the same position
    for fi, q in enumerate(quads):
        for k, pi in enumerate(q):
            ctx.prove("every-face-sharing-a-point-has-the-smoothed-position", ctx.eq(sketch.faces[fi].points[k].position, after[pi], tol=0))


@proof("C15", "regular-lattice-is-a-fixed-point", cases=[(n, m) for n in (2, 3, 5) for m in (2, 4)],
       functions=[SM + "SmootherBase.smooth"], samples=3, note="symbolic origin, spacing and iteration count 1..3")
def regular_fixed_point(ctx):
    n, m = ctx.case
    ox, oy = ctx.real("ox"), ctx.real("oy")
    dx, dy = ctx.real("dx", lo=0.1, hi=5), ctx.real("dy", lo=0.1, hi=5)
    pts = np.array([[ox + i * dx, oy + j * dy, 0] for j in range(m + 1) for i in range(n + 1)], dtype=object if ctx.symbolic else float)
    _, quads = structured(n, m)
    sketch = cb.MappedSketch(pts, [list(q) for q in quads])
    sm = SketchSmoother(sketch)
    sm.smooth(3)
    ctx.prove("regular-lattice-unchanged", ctx.eq(sketch.positions, pts, tol=1e-9))


@proof("C15", "bounded/converges-to-the-average", cases=["3x3", "5x5", "L-shape", "pentagon-fan", "hex-3x3x3", "hex-L"], level="B", samples=4,
       functions=[SM + "SmootherBase.smooth", SM + "MeshSmoother.backport", SM + "SmootherBase.fix_points"],
       note="bounded stand-in only (convergence is numerical analysis): jittered interior, 200 iterations, fixed points by position")
def converges(ctx):
    rng = ctx.rng
    name = ctx.case
    if name.startswith("hex"):
        pts, cells = HEX_TOPOS["3x3x3" if name == "hex-3x3x3" else "3x2x2-L"]
        boundary, nbrs = spec_hex_graph(cells, len(pts))
        P = np.array(pts, dtype=float)
        interior = [i for i in range(len(pts)) if i not in boundary]
        for i in interior:
            P[i] += [rng.uniform(-0.25, 0.25) for _ in range(3)]
        mesh = Mesh()
        for c in cells:
            op = cb.Loft(cb.Face([P[i] for i in c[:4]]), cb.Face([P[i] for i in c[4:]]))
            mesh.add(op)
        mesh.assemble(skip_edges=True)
        # mesh vertex numbering differs from lattice numbering: map by position
        pos0 = np.array([np.asarray(v.position, dtype=float) for v in mesh.vertices])
        lat = [int(np.argmin(np.linalg.norm(P - p, axis=1))) for p in pos0]
        sm = MeshSmoother(mesh)
        fixed_lat = interior[:1] if rng.random() < 0.5 and len(interior) > 1 else []
        if fixed_lat:
            sm.fix_points([P[fixed_lat[0]].copy()])
        sm.smooth(200)
        pos1 = np.array([np.asarray(v.position, dtype=float) for v in mesh.vertices])
        by_lat = {lat[k]: pos1[k] for k in range(len(lat))}
        for k, l in enumerate(lat):
            if l in boundary or l in fixed_lat:
                ctx.prove("boundary-and-fixed-points-stay-exactly", bool(np.all(pos1[k] == pos0[k])), point=l)
            else:
                avg = np.mean([by_lat[n] for n in nbrs[l]], axis=0)
                ctx.prove("free-point-equals-neighbour-average-after-200-iterations", float(np.linalg.norm(pos1[k] - avg)) < 1e-6, point=l)
        return
    pts, quads = QUAD_TOPOS[name]
    boundary, nbrs = spec_quad_graph(quads, len(pts))
    P = np.array(pts, dtype=float)
    interior = [i for i in range(len(pts)) if i not in boundary]
    for i in interior:
        P[i, :2] += [rng.uniform(-0.3, 0.3), rng.uniform(-0.3, 0.3)]
    sketch = cb.MappedSketch(P, [list(q) for q in quads])
    sm = SketchSmoother(sketch)
    fixed = []
    if len(interior) > 2 and rng.random() < 0.6:
        fixed = [interior[rng.randrange(len(interior))]]
        sm.fix_points([P[fixed[0]].copy()])
        if rng.random() < 0.5:
            other = [i for i in interior if i not in fixed][0]
            sm.fix_indexes([other])
            fixed.append(other)
    sm.smooth(200)
    after = sketch.positions
    for i in range(len(pts)):
        if i in boundary or i in fixed:
            ctx.prove("boundary-and-fixed-points-stay-exactly", bool(np.all(after[i] == P[i])), point=i)
        else:
            avg = np.mean([after[n] for n in nbrs[i]], axis=0)
            ctx.prove("free-point-equals-neighbour-average-after-200-iterations", float(np.linalg.norm(after[i] - avg)) < 1e-6, point=i)
    if name in ("3x3", "5x5") and not fixed:
        n = 3 if name == "3x3" else 5
        ctx.prove("regular-boundary-yields-the-regular-lattice", bool(np.allclose(after, np.array(pts), atol=1e-6)))


# ------------------------------------------------------------------------------ smoothers over the life of a model
@proof("C15", "bounded/smoother-life-cycle", cases=["mesh-smoother-reused-after-backport", "mesh-smoother-with-a-projected-interior-vertex", "second-mesh-smoother-after-a-vertex-was-moved",
                                                    "sketch-copied-and-moved", "sketch-transformed-after-a-look",
                                                    "half-spline-disk", "spline-disk", "oval"], level="B", samples=3,
       functions=[SM + "MeshSmoother.__init__", SM + "MeshSmoother.backport", SM + "SketchSmoother.backport",
                  "classy_blocks.construct.flat.sketches.mapped:MappedSketch.positions", "classy_blocks.construct.flat.face:Face.update"],
       note="bounded stand-in: a mesh smoother used again after the mesh was re-assembled; a sketch whose positions were looked at and "
            "that was then copied / transformed; sketch classes whose grid order differs from their face order - in each case boundary "
            "points stay, free points end at the average of their edge-connected points, and every face sharing a point gets the same position")
def life_cycle(ctx):
    rng = ctx.rng
    name = ctx.case

    def face_positions(sketch):
        """positions by index, read from the faces themselves (where the geometry lives)"""
        out = {}
        for q, f_ in zip(sketch.indexes, sketch.faces):
            for corner, i in enumerate(q):
                out.setdefault(int(i), np.asarray(f_.points[corner].position, dtype=float).copy())
        return np.array([out[i] for i in range(len(out))])

    def check_sketch(sketch, where):
        """after smoothing: boundary exactly in place, interior at the average, faces consistent with positions"""
        quads = [list(q) for q in sketch.indexes]
        before = face_positions(sketch)
        boundary, nbrs = spec_quad_graph(quads, len(before))
        SketchSmoother(sketch).smooth(200)
        after = face_positions(sketch)
        ctx.prove("positions-property-agrees-with-the-faces", bool(np.allclose(np.array(sketch.positions, dtype=float), after, atol=1e-12 * (np.abs(after).max() + 1))), where=where)
        scale = np.abs(before).max() + 1
        for i in range(len(before)):
            if i in boundary:
                ctx.prove("boundary-points-stay", bool(np.allclose(after[i], before[i], atol=1e-12 * scale)), where=where, point=i)
            else:
                avg = np.mean([after[n] for n in nbrs[i]], axis=0)
                ctx.prove("free-point-at-the-neighbour-average", float(np.linalg.norm(after[i] - avg)) < 1e-6 * scale, where=where, point=i)
        for f_, q in zip(sketch.faces, quads):
            ctx.prove("every-face-holds-the-positions-of-its-own-points", bool(np.allclose(np.asarray(f_.point_array, dtype=float), after[q], atol=1e-9 * scale)), where=where)

    if name in ("mesh-smoother-with-a-projected-interior-vertex", "second-mesh-smoother-after-a-vertex-was-moved"):
        pts, cells = HEX_TOPOS["3x3x3"]
        boundary, nbrs = spec_hex_graph(cells, len(pts))
        P = np.array(pts, dtype=float)
        interior = [i for i in range(len(pts)) if i not in boundary]
        for i in interior:
            P[i] += [rng.uniform(-0.25, 0.25) for _ in range(3)]
        ops = [cb.Loft(cb.Face([P[i] for i in c[:4]]), cb.Face([P[i] for i in c[4:]])) for c in cells]
        if "projected" in name:
            # an interior vertex that is projected to a geometry is still a free vertex for the smoother
            target = interior[rng.randrange(len(interior))]
            for op, c in zip(ops, cells):
                if target in c:
                    op.project_corner(c.index(target), "some_surface")
        mesh = Mesh()
        for op in ops:
            mesh.add(op)
        mesh.assemble(skip_edges=True)
        index_of = {}
        for b, c in zip(mesh.blocks, cells):
            for corner, l in enumerate(c):
                index_of[l] = b.vertices[corner].index
        expect_boundary = {l: np.array(pts[l], dtype=float) for l in boundary}
        if "second" in name:
            MeshSmoother(mesh).smooth(1)
            moved = sorted(boundary)[rng.randrange(len(boundary))]
            shift = np.array([0.07, -0.05, 0.06])
            mesh.vertices[index_of[moved]].translate(shift)
            expect_boundary[moved] = expect_boundary[moved] + shift
        MeshSmoother(mesh).smooth(300)
        pos = np.array([np.asarray(v.position, dtype=float) for v in mesh.vertices])
        for l in range(len(pts)):
            if l in boundary:
                ctx.prove("boundary-points-stay", bool(np.allclose(pos[index_of[l]], expect_boundary[l], atol=1e-12)), point=l)
            else:
                avg = np.mean([pos[index_of[n]] for n in nbrs[l]], axis=0)
                ctx.prove("free-point-at-the-neighbour-average", float(np.linalg.norm(pos[index_of[l]] - avg)) < 1e-6, point=l)
        return
    if name == "mesh-smoother-reused-after-backport":
        pts, cells = HEX_TOPOS["3x3x3"]
        boundary, nbrs = spec_hex_graph(cells, len(pts))
        P = np.array(pts, dtype=float)
        for i in range(len(pts)):
            if i not in boundary:
                P[i] += [rng.uniform(-0.25, 0.25) for _ in range(3)]
        mesh = Mesh()
        for c in cells:
            mesh.add(cb.Loft(cb.Face([P[i] for i in c[:4]]), cb.Face([P[i] for i in c[4:]])))
        mesh.assemble(skip_edges=True)
        sm = MeshSmoother(mesh)
        sm.smooth(1)
        mesh.backport()          # re-assembles: the mesh has new vertex objects now
        sm.smooth(200)
        pos = np.array([np.asarray(v.position, dtype=float) for v in mesh.vertices])
        # identify vertices through the operations' corner numbering instead of positions
        index_of = {}
        for b, c in zip(mesh.blocks, cells):
            for corner, l in enumerate(c):
                index_of[l] = b.vertices[corner].index
        for l in range(len(pts)):
            if l in boundary:
                ctx.prove("boundary-points-stay", bool(np.allclose(pos[index_of[l]], np.array(pts[l], dtype=float), atol=1e-12)), point=l)
            else:
                avg = np.mean([pos[index_of[n]] for n in nbrs[l]], axis=0)
                ctx.prove("free-point-at-the-neighbour-average", float(np.linalg.norm(pos[index_of[l]] - avg)) < 1e-6, point=l)
        return
    if name in ("sketch-copied-and-moved", "sketch-transformed-after-a-look"):
        pts, quads = QUAD_TOPOS["4x3"]
        boundary, _ = spec_quad_graph(quads, len(pts))
        P = np.array(pts, dtype=float)
        for i in range(len(pts)):
            if i not in boundary:
                P[i, :2] += [rng.uniform(-0.3, 0.3), rng.uniform(-0.3, 0.3)]
        base = cb.MappedSketch(P, [list(q) for q in quads])
        _ = base.positions      # somebody looks at the positions first
        if name == "sketch-copied-and-moved":
            SketchSmoother(base).smooth(3)
            other = base.copy().translate([0.0, 0.0, 2.5]).rotate(0.4, [0.0, 0.0, 1.0], [0.0, 0.0, 0.0])
            check_sketch(other, "the moved copy")
        else:
            base.translate([3.0, -1.0, 0.5])
            check_sketch(base, "the translated sketch")
        return
    c = np.array([rng.uniform(-2, 2) for _ in range(3)])
    if name == "oval":
        sketch = cb.Oval(c, c + np.array([1.5, 0.0, 0.0]), [0.0, 0.0, 1.0], 0.7)
    else:
        cls = cb.HalfSplineDisk if name == "half-spline-disk" else cb.SplineDisk
        sketch = cls(c, c + np.array([1.5, 0.0, 0.0]), c + np.array([0.0, 1.0, 0.0]), 0.3, 0.2)
    check_sketch(sketch, name)


# ------------------------------------------------------------------------------ writing positions back into a sketch
@proof("C15", "MappedSketch.update/every-face-gets-its-points", cases=["row-major", "ring-first-centre-last", "reversed", "L-shape", "pentagon-fan"], samples=3,
       functions=["classy_blocks.construct.flat.sketches.mapped:MappedSketch.update", "classy_blocks.construct.flat.face:Face.update",
                  "classy_blocks.construct.flat.sketches.mapped:MappedSketch.positions"],
       note="all old and new positions symbolic; faces listed in several orders (also a face listed after all its neighbours): after "
            "update(positions) every face holds positions[its own indexes], and positions reads the same values back")
def sketch_update(ctx):
    if ctx.case in ("L-shape", "pentagon-fan"):
        pts, quads = QUAD_TOPOS[ctx.case]
    else:
        pts, quads = structured(3, 3)
        quads = [list(q) for q in quads]
        if ctx.case == "ring-first-centre-last":
            quads = [q for k, q in enumerate(quads) if k != 4] + [quads[4]]
        elif ctx.case == "reversed":
            quads = quads[::-1]
    old = sym_positions(ctx, pts)
    sketch = cb.MappedSketch(old, [list(q) for q in quads])
    new = np.array([[ctx.real(f"nx{i}"), ctx.real(f"ny{i}"), ctx.real(f"nz{i}")] for i in range(len(pts))], dtype=object if ctx.symbolic else float)
    sketch.update(new)
    for k, (f_, q) in enumerate(zip(sketch.faces, quads)):
        ctx.prove("face-holds-the-new-positions-of-its-own-points", And([ctx.eq(f_.point_array[c], new[q[c]], tol=0) for c in range(4)]), face=k)
    ctx.prove("positions-reads-the-new-values-back", ctx.eq(np.array(sketch.positions, dtype=object if ctx.symbolic else float), new, tol=0))
