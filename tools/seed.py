#!/usr/bin/env python3
"""tools/seed.py <prop> <mutant-dir> <name> [--wt DIR]

Confirms a seeded change (patch.diff + demo.py) in a scratch worktree: patch applies, test
suite result equals the baseline, demo fails with the patch and passes without; then applies
it to /repo, runs ./check <prop> (quick), reverts, and stores everything under
/verif/seeded/<name>/ with meta.json.  Nothing is ever committed to /repo."""
import json, os, shutil, subprocess, sys, time

V = os.path.dirname(os.path.dirname(os.path.abspath(__file__)))


def sh(cmd, cwd=None, env=None, timeout=3600):
    p = subprocess.run(cmd, shell=True, cwd=cwd, env=env, capture_output=True, text=True, timeout=timeout)
    return p.returncode, p.stdout + p.stderr


def main():
    prop, mdir, name = sys.argv[1:4]
    wt = sys.argv[sys.argv.index("--wt") + 1] if "--wt" in sys.argv else f"/tmp/wt/{prop}"
    extra_props = sys.argv[sys.argv.index("--also") + 1].split(",") if "--also" in sys.argv else []
    patch = os.path.join(mdir, "patch.diff")
    demo = os.path.join(mdir, "demo.py")
    env = dict(os.environ, PYTHONPATH=os.path.join(wt, "src"))
    meta = {"property": prop, "name": name, "ran": []}
    sh("git checkout -- src", cwd=wt)
    rc, out = sh(f"/venv/bin/python {demo}", cwd=wt, env=env)
    meta["demo_without_patch_exit"] = rc
    rc, out = sh(f"git apply {patch}", cwd=wt)
    if rc != 0:
        print("patch does not apply in worktree:", out)
        return 2
    rc, out = sh("/venv/bin/python -m pytest -p no:cacheprovider 2>&1 | tail -3", cwd=wt, env=env)
    meta["tests_with_patch"] = " | ".join(l.strip("= ") for l in out.strip().splitlines() if "passed" in l or "failed" in l)[-200:]
    rc, out = sh(f"/venv/bin/python {demo}", cwd=wt, env=env)
    meta["demo_with_patch_exit"] = rc
    meta["demo_with_patch_tail"] = out.strip()[-400:]
    sh("git checkout -- src", cwd=wt)
    ok = meta["demo_without_patch_exit"] == 0 and meta["demo_with_patch_exit"] != 0 and "1010 passed" in meta["tests_with_patch"]
    meta["confirmed"] = ok
    # run the checks against /repo with the patch applied
    rc, out = sh("git status --porcelain", cwd="/repo")
    if out.strip():
        print("/repo not clean; refusing")
        return 2
    rc, out = sh(f"git apply {os.path.abspath(patch)}", cwd="/repo")
    if rc != 0:
        print("patch does not apply to /repo:", out)
        return 2
    results = {}
    try:
        for p in [prop] + extra_props:
            t0 = time.time()
            rc, out = sh(f"./check {p} --tier quick --no-evidence", cwd=V, timeout=3000)
            lines = [l for l in out.splitlines() if l.startswith(("VIOLATION", "KNOWN", "UNDECIDED", "ENGINE", p + " "))]
            results[p] = {"exit": rc, "seconds": round(time.time() - t0, 1), "lines": lines[:12],
                          "obligations": [l.strip()[:220] for l in out.splitlines() if l.startswith("  obligation") or l.startswith("  contract")][:8]}
    finally:
        sh("git checkout -- .", cwd="/repo")
    meta["check_results"] = results
    meta["detected"] = any(r["exit"] == 1 for r in results.values())
    dst = os.path.join(V, "seeded", name)
    os.makedirs(dst, exist_ok=True)
    shutil.copy(patch, os.path.join(dst, "patch.diff"))
    shutil.copy(demo, os.path.join(dst, "demo.py"))
    if os.path.exists(os.path.join(mdir, "notes.txt")):
        meta["needs"] = open(os.path.join(mdir, "notes.txt")).read()[:1500]
    meta["ran"] = ["git apply patch.diff (scratch worktree)", "pytest -q (baseline equal: 1010 passed, 1 known failure)",
                   "demo.py with and without the patch", f"git -C /repo apply; ./check {prop} --tier quick; git -C /repo checkout -- ."]
    json.dump(meta, open(os.path.join(dst, "meta.json"), "w"), indent=1)
    print(json.dumps({k: meta[k] for k in ("name", "confirmed", "detected", "tests_with_patch")}), {p: (r["exit"], r["seconds"]) for p, r in results.items()})
    for p, r in results.items():
        for l in r["obligations"][:4]:
            print("   ", l)
    return 0


if __name__ == "__main__":
    sys.exit(main())
