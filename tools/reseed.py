#!/usr/bin/env python3
"""Regression over the seeded changes: apply each /verif/seeded/<id>/patch.diff to /repo's working tree,
run the quick check of its property (and of the properties listed in meta['also']), revert, and report
whether the change is still detected.  Never commits anything to /repo.

usage: tools/reseed.py [name-substring ...]   (writes /verif/seeded/REGRESSION.json)
"""
import glob
import json
import os
import re
import subprocess
import sys
import time

VERIF = os.path.dirname(os.path.dirname(os.path.abspath(__file__)))
REPO = os.environ.get("VERIF_REPO", "/repo")


def sh(*cmd, **kw):
    return subprocess.run(cmd, capture_output=True, text=True, **kw)


def main():
    want = sys.argv[1:]
    if sh("git", "-C", REPO, "status", "--porcelain").stdout.strip():
        print("refusing: /repo working tree is not clean")
        return 3
    out = {}
    for d in sorted(glob.glob(os.path.join(VERIF, "seeded", "C*"))):
        name = os.path.basename(d)
        if want and not any(w in name for w in want):
            continue
        if os.environ.get("RESEED_EXCLUDE") and os.environ["RESEED_EXCLUDE"] in name:
            continue
        meta = json.load(open(os.path.join(d, "meta.json")))
        patch = os.path.join(d, "patch.diff")
        if sh("git", "-C", REPO, "apply", "--check", patch).returncode != 0:
            if sh("git", "-C", REPO, "apply", "--check", "-3", patch).returncode != 0:
                out[name] = {"applies": False}
                print(name, "does not apply to the current tree")
                continue
        if sh("git", "-C", REPO, "apply", patch).returncode != 0:
            sh("git", "-C", REPO, "apply", "-3", patch)
            sh("git", "-C", REPO, "reset", "-q")   # -3 stages the result; keep it in the working tree only
        if not sh("git", "-C", REPO, "status", "--porcelain").stdout.strip():
            out[name] = {"applies": False}
            print(name, "does not apply to the current tree")
            continue
        res = {"applies": True, "checks": {}}
        try:
            # the property's own check first; where the change was (also) evaluated against the check of the property whose
            # code it touches (seed.py --also), those checks as well
            props = [meta["property"]] + [k for k in (meta.get("check_results") or {}) if k != meta["property"]]
            t0 = time.time()
            for p in props:
                r = sh(os.path.join(VERIF, "check"), p, "--no-evidence", cwd=VERIF)
                oids = re.findall(r"contract clause (\S+) violated|obligation (\S+) (?:refuted|violated)", r.stdout)
                res["checks"][p] = {"exit": r.returncode, "violations": len(re.findall(r"^VIOLATION ", r.stdout, re.M)),
                                    "first": next((a or b for a, b in oids), None)}
            res["detected"] = any(c["exit"] == 1 and c["violations"] for c in res["checks"].values())
            res["seconds"] = round(time.time() - t0, 1)
        finally:
            sh("git", "-C", REPO, "checkout", "--", ".")
            sh("git", "-C", REPO, "clean", "-fdq", "src", "tests")
        out[name] = res
        print(name, "detected" if res["detected"] else "MISSED", res["checks"], flush=True)
    with open(os.environ.get("REGRESSION_OUT") or os.path.join(VERIF, "seeded", "REGRESSION.json"), "w") as fh:
        json.dump(out, fh, indent=1, sort_keys=True)
    missed = [k for k, v in out.items() if v.get("applies") and not v.get("detected")]
    print("applied:", sum(1 for v in out.values() if v.get("applies")), "missed:", missed)
    return 0


if __name__ == "__main__":
    sys.exit(main())
