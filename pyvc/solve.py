"""Back ends: z3 (SMT), numeric sampling, and the portfolio that discharges one obligation.

An obligation is `pc ⇒ goal`.  Verdicts: ("proved", backend) | ("refuted", env|None, text)
| ("unknown", text).  `unknown` is never turned into a violation or a pass (DESIGN §2.6).
"""
from __future__ import annotations

import math
import random
import time
from fractions import Fraction
from typing import Dict, List, Optional, Sequence, Tuple

import z3

from . import terms as tm
from .terms import T

# ------------------------------------------------------------------------------ z3 translation


class Z3Ctx:
    """Translates terms to z3 and collects the defining axioms of the atoms it meets."""

    def __init__(self):
        self.cache: Dict[int, z3.ExprRef] = {}
        self.axioms: List[z3.ExprRef] = []
        self.funcs: Dict[str, z3.FuncDeclRef] = {}
        self.n_aux = 0
        self.pi = None

    def aux(self, sort="R"):
        self.n_aux += 1
        return z3.Real(f"aux!{self.n_aux}") if sort == "R" else z3.Int(f"aux!{self.n_aux}")

    def func(self, name, arity):
        key = f"{name}/{arity}"
        if key not in self.funcs:
            self.funcs[key] = z3.Function(name, *([z3.RealSort()] * (arity + 1)))
        return self.funcs[key]

    def tr(self, t: T):
        order = sorted(tm.subterms([t]), key=lambda x: x.id)
        for x in order:
            if x.id not in self.cache:
                self.cache[x.id] = self._tr1(x)
        return self.cache[t.id]

    def _real(self, e):
        return z3.ToReal(e) if z3.is_int(e) else e

    def _tr1(self, x: T):
        g = lambda a: self.cache[a.id]
        op = x.op
        if op == "const":
            v = tm.cval(x)
            if x.sort == "I":
                return z3.IntVal(int(v))
            return z3.RealVal(f"{v.numerator}/{v.denominator}")
        if op == "var":
            if x.args[0] == tm.PI_NAME:
                if self.pi is None:
                    self.pi = z3.Real("pi")
                    self.axioms.append(self.pi > z3.RealVal("3.14159265358979"))
                    self.axioms.append(self.pi < z3.RealVal("3.14159265358980"))
                return self.pi
            if x.sort == "I":
                return z3.Int(x.args[0])
            if x.sort == "B":
                return z3.Bool(x.args[0])
            return z3.Real(x.args[0])
        if op == "true":
            return z3.BoolVal(True)
        if op == "false":
            return z3.BoolVal(False)
        if op == "toreal":
            return self._real(g(x.args[0]))
        if op == "add":
            xs = [g(a) for a in x.args]
            if x.sort == "R":
                xs = [self._real(e) for e in xs]
            return z3.Sum(xs)
        if op == "mul":
            xs = [g(a) for a in x.args]
            if x.sort == "R":
                xs = [self._real(e) for e in xs]
            return z3.Product(xs)
        if op == "neg":
            return -g(x.args[0])
        if op == "div":
            return self._real(g(x.args[0])) / self._real(g(x.args[1]))
        if op == "powi":
            b = g(x.args[0])
            r = b
            for _ in range(x.args[1] - 1):
                r = r * b
            return r
        if op == "sqrt":
            r = self._real(g(x.args[0]))
            s = self.aux()
            self.axioms.append(s >= 0)
            self.axioms.append(z3.Implies(r >= 0, s * s == r))
            return s
        if op == "trunc":
            r = self._real(g(x.args[0]))
            k = self.aux("I")
            kr = z3.ToReal(k)
            self.axioms.append(z3.Implies(r >= 0, z3.And(kr <= r, r < kr + 1)))
            self.axioms.append(z3.Implies(r < 0, z3.And(kr - 1 < r, r <= kr)))
            return k
        if op == "floordiv":
            return g(x.args[0]) / g(x.args[1])  # Int division in z3 = floor for positive divisor
        if op == "mod":
            return g(x.args[0]) % g(x.args[1])
        if op == "ite":
            a, b = g(x.args[1]), g(x.args[2])
            if x.sort == "R":
                a, b = self._real(a), self._real(b)
            return z3.If(g(x.args[0]), a, b)
        if op in ("lt", "le", "eq"):
            a, b = g(x.args[0]), g(x.args[1])
            if z3.is_int(a) != z3.is_int(b):
                a, b = self._real(a), self._real(b)
            return {"lt": a < b, "le": a <= b, "eq": a == b}[op]
        if op == "iff":
            return g(x.args[0]) == g(x.args[1])
        if op == "not":
            return z3.Not(g(x.args[0]))
        if op == "and":
            return z3.And([g(a) for a in x.args])
        if op == "or":
            return z3.Or([g(a) for a in x.args])
        if op == "fn":
            return self._fn(x, [self._real(g(a)) if a.sort != "B" else g(a) for a in x.args[1:]])
        raise tm.Unsupported(f"no z3 translation for {op}")

    def _fn(self, x: T, args):
        name = x.args[0]
        f = self.func(name, len(args))
        e = f(*args)
        ax = self.axioms
        if name in ("sin", "cos"):
            s = self.func("sin", 1)(args[0])
            c = self.func("cos", 1)(args[0])
            ax.append(s * s + c * c == 1)
            ax.append(z3.And(s >= -1, s <= 1, c >= -1, c <= 1))
            # A4: signs of sin/cos on the quadrants of (-2pi, 2pi)
            if self.pi is None:
                self.tr(tm.PI)
            t, pi = args[0], self.pi
            ax.append(z3.Implies(z3.And(t > 0, t < pi), s > 0))
            ax.append(z3.Implies(z3.And(t > pi, t < 2 * pi), s < 0))
            ax.append(z3.Implies(z3.And(t > -pi, t < 0), s < 0))
            ax.append(z3.Implies(z3.And(t > -2 * pi, t < -pi), s > 0))
            ax.append(z3.Implies(z3.And(t > -pi / 2, t < pi / 2), c > 0))
            ax.append(z3.Implies(z3.And(t > pi / 2, t < 3 * pi / 2), c < 0))
            ax.append(z3.Implies(z3.And(t > -3 * pi / 2, t < -pi / 2), c < 0))
            ax.append(z3.Implies(z3.And(t > 3 * pi / 2, t < 2 * pi), c > 0))
            ax.append(z3.Implies(z3.And(t > -2 * pi, t < -3 * pi / 2), c > 0))
        elif name == "tan":
            s = self.func("sin", 1)(args[0])
            c = self.func("cos", 1)(args[0])
            ax.append(s * s + c * c == 1)
            ax.append(z3.Implies(c != 0, e * c == s))
        elif name == "arccos":
            if self.pi is None:
                self.tr(tm.PI)
            ax.append(z3.And(e >= 0, e <= self.pi))
            c = self.func("cos", 1)(e)
            s = self.func("sin", 1)(e)
            ax.append(z3.Implies(z3.And(args[0] >= -1, args[0] <= 1), c == args[0]))
            ax.append(s >= 0)
            ax.append(s * s + c * c == 1)
            # A4: arccos(cos t) on [-pi, 2pi]
            xa = x.args[1]
            if xa.op == "fn" and xa.args[0] == "cos":
                t = self._real(self.cache[xa.args[1].id])
                ax.append(z3.Implies(z3.And(t >= 0, t <= self.pi), e == t))
                ax.append(z3.Implies(z3.And(t >= self.pi, t <= 2 * self.pi), e == 2 * self.pi - t))
                ax.append(z3.Implies(z3.And(t >= -self.pi, t <= 0), e == -t))
        elif name == "pow":
            b, n = args
            ax.append(z3.Implies(b > 0, e > 0))
            ax.append(z3.Implies(n == 0, e == 1))
            ax.append(z3.Implies(n == 1, e == b))
            ax.append(z3.Implies(b == 1, e == 1))
        return e


def _model_env(model: z3.ModelRef, vars_: Sequence[T]) -> Dict[str, float]:
    env = {}
    for v in vars_:
        name = v.args[0]
        if name == tm.PI_NAME:
            continue
        zv = z3.Int(name) if v.sort == "I" else z3.Real(name)
        val = model.eval(zv, model_completion=True)
        env[name] = _z3num(val, v.sort)
    return env


def _z3num(val, sort):
    if z3.is_int_value(val):
        return val.as_long() if sort == "I" else float(val.as_long())
    if z3.is_rational_value(val):
        f = Fraction(val.numerator_as_long(), val.denominator_as_long())
        return int(f) if sort == "I" else float(f)
    if z3.is_algebraic_value(val):
        return float(val.approx(20).as_fraction())
    try:
        return float(str(val))
    except Exception:
        return 0.0


def _nonlinear(ts) -> bool:
    for x in tm.subterms(ts):
        if x.op in ("powi", "sqrt", "fn", "trunc", "mod", "floordiv"):
            return True
        if x.op == "div" and not tm.is_const(x.args[1]):
            return True
        if x.op == "mul" and sum(1 for a in x.args if not tm.is_const(a)) >= 2:
            return True
    return False


ISOLATED = {"calls": 0, "killed": 0}


def z3_check(pc: Sequence[T], goal: Optional[T], timeout_ms: int, want_model=True):
    """Is pc ∧ ¬goal satisfiable?  goal None: is pc satisfiable?

    Non-linear queries run in a forked child that is killed at the deadline: z3's own timeout is
    cooperative and its non-linear core can sit in big-number arithmetic far beyond it."""
    ts = list(pc) + ([goal] if goal is not None else [])
    if not _nonlinear(ts):
        return _z3_check(pc, goal, timeout_ms, want_model)
    import os
    import pickle
    import select
    import signal as _signal

    ISOLATED["calls"] += 1
    r_fd, w_fd = os.pipe()
    pid = os.fork()
    if pid == 0:  # child
        code = 0
        try:
            os.close(r_fd)
            _signal.setitimer(_signal.ITIMER_REAL, 0)
            try:
                res = _z3_check(pc, goal, timeout_ms, want_model)
            except tm.Unsupported as e:
                res = ("unsupported", str(e), 0.0)
            data = pickle.dumps(res)
            os.write(w_fd, len(data).to_bytes(8, "little") + data)
        except BaseException:  # noqa: BLE001
            code = 1
        finally:
            os._exit(code)
    os.close(w_fd)
    deadline_s = time.time() + timeout_ms / 1000.0 + 1.5
    buf = b""
    result = None
    try:
        while True:
            left = deadline_s - time.time()
            if left <= 0:
                break
            ready, _, _ = select.select([r_fd], [], [], min(left, 0.5))
            if ready:
                chunk = os.read(r_fd, 1 << 20)
                if not chunk:
                    break
                buf += chunk
                if len(buf) >= 8 and len(buf) - 8 >= int.from_bytes(buf[:8], "little"):
                    result = pickle.loads(buf[8:8 + int.from_bytes(buf[:8], "little")])
                    break
    finally:
        os.close(r_fd)
        if result is None:
            ISOLATED["killed"] += 1
            try:
                os.kill(pid, _signal.SIGKILL)
            except ProcessLookupError:
                pass
        try:
            os.waitpid(pid, 0)
        except ChildProcessError:
            pass
    if result is None:
        return "unknown", "hard timeout (solver process killed)", timeout_ms / 1000.0
    if result[0] == "unsupported":
        raise tm.Unsupported(result[1])
    return result


def _crosscheck(solver) -> None:
    """A5: in the thorough tier every `unsat` of z3 5.1 (discharged goal or pruned branch) is put to a second
    solver build as SMT-LIB text of the same assertions (5 s): the system's z3 4.8.12.  (cvc5 - the Debian
    build without libpoly and the 1.4 wheel - leaves these non-linear queries `unknown` at 8-10 s, so it is
    of no use here.)  The outcome is appended to $PYVC_CROSSCHECK; an answer `sat` is a solver disagreement,
    reported by the driver as a checker error."""
    import os

    log = os.environ.get("PYVC_CROSSCHECK")
    if not log:
        return
    import hashlib
    import subprocess
    import tempfile

    text = "(set-logic ALL)\n" + solver.to_smt2()
    key = hashlib.sha1(text.encode()).hexdigest()[:16]
    out = "error"
    try:
        with tempfile.NamedTemporaryFile("w", suffix=".smt2", delete=False) as fh:
            fh.write(text)
            path = fh.name
        try:
            pr = subprocess.run(["/usr/bin/z3", "-T:5", path], capture_output=True, text=True, timeout=20)
            first = (pr.stdout.strip().splitlines() or ["error"])[0]
            out = first if first in ("unsat", "sat", "unknown") else ("timeout" if "timeout" in pr.stdout + pr.stderr or pr.returncode < 0 else "error:" + (pr.stderr.strip() or pr.stdout.strip())[:80].replace("\n", " "))
        except subprocess.TimeoutExpired:
            out = "timeout"
        finally:
            if out == "sat":
                os.replace(path, log + "." + key + ".smt2")
            else:
                os.unlink(path)
    except OSError as e:
        out = f"error:{e}"
    with open(log, "a") as fh:
        fh.write(f"{key} {out}\n")


def _z3_check(pc: Sequence[T], goal: Optional[T], timeout_ms: int, want_model=True):
    zc = Z3Ctx()
    fs = [zc.tr(c) for c in pc]
    if goal is not None:
        fs.append(z3.Not(zc.tr(goal)))
    s = z3.Solver()
    s.set("timeout", int(timeout_ms))
    for a in zc.axioms:
        s.add(a)
    for f in fs:
        s.add(f)
    t0 = time.time()
    r = s.check()
    dt = time.time() - t0
    if r == z3.unsat:
        _crosscheck(s)
        return "unsat", None, dt
    if r == z3.sat:
        env = None
        if want_model:
            vs = tm.free_vars(list(pc) + ([goal] if goal is not None else []))
            env = _model_env(s.model(), vs)
        return "sat", env, dt
    return "unknown", s.reason_unknown(), dt


# ------------------------------------------------------------------------------ feasibility


class Feasibility:
    """Cheap pruning of infeasible branches; `None`/True = keep the branch."""

    def __init__(self, timeout_ms=400):
        self.timeout_ms = timeout_ms
        self.cache: Dict[tuple, Optional[bool]] = {}
        self.calls = 0
        self.time = 0.0

    def __call__(self, pc, t: T):
        key = (tuple(c.id for c in pc), t.id)
        if key in self.cache:
            return self.cache[key]
        self.calls += 1
        r, dt = "unknown", 0.0
        try:
            ts = list(pc) + [t]
            if _nonlinear(ts):
                # cheap first: on the abstraction (sound for "infeasible")
                ab, facts = abstract(ts, limit=6)
                ra, _, dta = _z3_check(ab + facts, None, self.timeout_ms, want_model=False) if not _nonlinear(ab + facts) \
                    else z3_check(ab + facts, None, self.timeout_ms, want_model=False)
                dt += dta
                if ra == "unsat":
                    r = "unsat"
            if r != "unsat":
                r, _, dt2 = z3_check(ts, None, self.timeout_ms, want_model=False)
                dt += dt2
        except tm.Unsupported:
            r = "unknown"
        self.time += dt
        out = False if r == "unsat" else (True if r == "sat" else None)
        self.cache[key] = out
        return out


# ------------------------------------------------------------------------------ numeric search


def numeric_search(pc: Sequence[T], goal: Optional[T], vars_: Sequence[T], rng: random.Random, tries=4000,
                   scale=(0.1, 10.0), hints: Optional[Dict[str, float]] = None):
    """Random search for an environment with pc true and goal false (goal None: pc true)."""
    names = [(v.args[0], v.sort) for v in vars_ if v.args[0] != tm.PI_NAME]
    # simple bounds stated in the path condition (var <= c, c <= var, ...) narrow the sampling box
    lo_b: Dict[str, float] = {}
    hi_b: Dict[str, float] = {}
    for c in pc:
        neg = c.op == "not"
        d = c.args[0] if neg else c
        if d.op in ("le", "lt") and not neg:
            a, b = d.args
            if a.op == "var" and tm.is_const(b):
                hi_b[a.args[0]] = min(hi_b.get(a.args[0], math.inf), float(tm.cval(b)))
            elif b.op == "var" and tm.is_const(a):
                lo_b[b.args[0]] = max(lo_b.get(b.args[0], -math.inf), float(tm.cval(a)))
        elif d.op in ("le", "lt") and neg:
            a, b = d.args  # not (a < b)  ==  b <= a
            if a.op == "var" and tm.is_const(b):
                lo_b[a.args[0]] = max(lo_b.get(a.args[0], -math.inf), float(tm.cval(b)))
            elif b.op == "var" and tm.is_const(a):
                hi_b[b.args[0]] = min(hi_b.get(b.args[0], math.inf), float(tm.cval(a)))
    for k in range(tries):
        env = {}
        mag = math.exp(rng.uniform(math.log(scale[0]), math.log(scale[1])))
        for n, s in names:
            lo, hi = lo_b.get(n, -math.inf), hi_b.get(n, math.inf)
            if s == "I":
                a_ = int(math.ceil(lo)) if lo > -math.inf else -3
                b_ = int(math.floor(hi)) if hi < math.inf else max(a_, 8)
                env[n] = rng.randint(a_, max(a_, b_))
            elif lo > -math.inf and hi < math.inf:
                env[n] = rng.uniform(lo, hi)
            elif lo > -math.inf:
                env[n] = lo + rng.random() * mag
            elif hi < math.inf:
                env[n] = hi - rng.random() * mag
            else:
                env[n] = rng.uniform(-1, 1) * mag
        if hints and k % 2 == 0:
            env.update(hints)
        try:
            cache = {}
            tm.EQ_TOL[0] = 0.0
            if all(tm.evalf(c, env, cache) for c in pc):
                if goal is None:
                    return env
                tm.EQ_TOL[0] = 1e-6   # a counter-model must violate an equality robustly, not by rounding
                if not tm.evalf(goal, env, {}):
                    return env
        except tm.EvalError:
            continue
        finally:
            tm.EQ_TOL[0] = 0.0
    return None


# ------------------------------------------------------------------------------ abstraction


def abstract(ts: Sequence[T], limit: int = 10, atoms_as_vars: bool = False) -> List[T]:
    """Replace every large non-linear subterm by a fresh variable, consistently (the same term
    gets the same variable).  Sound for proving: fresh variables are unconstrained, so unsat
    of the abstraction implies unsat of the original (DESIGN §2.2 item 2)."""
    size: Dict[int, int] = {}
    out: Dict[int, T] = {}
    facts: List[T] = []
    order = sorted(tm.subterms(ts), key=lambda x: x.id)
    for x in order:
        kids = [a for a in x.args if isinstance(a, T)]
        size[x.id] = 1 + sum(size[k.id] for k in kids)
    for x in order:
        kids = [a for a in x.args if isinstance(a, T)]
        nonlinear = (
            (x.op == "mul" and sum(1 for k in kids if not tm.is_const(k)) >= 2)
            or (x.op == "div" and not tm.is_const(x.args[1]))
            or x.op in ("powi", "fn")
        )
        if atoms_as_vars and x.op in ("sqrt", "fn"):
            v = tm.var(f"abs!{x.id}", x.sort)
            out[x.id] = v
            if x.op == "sqrt":
                facts.append(tm.le(tm.const(0), v))
            continue
        if nonlinear and size[x.id] > limit:
            v = tm.var(f"abs!{x.id}", x.sort)
            out[x.id] = v
            if (x.op == "mul" and len(x.args) == 2 and x.args[0] is x.args[1]) or (x.op == "powi" and x.args[1] % 2 == 0):
                facts.append(tm.le(tm.const(0), v))  # a square
            continue
        if not kids or all(out[k.id] is k for k in kids):
            out[x.id] = x
        else:
            out[x.id] = tm.mk(x.op, tuple(out[a.id] if isinstance(a, T) else a for a in x.args), x.sort)
    return [out[t.id] for t in ts], facts


# ------------------------------------------------------------------------------ portfolio


def split_goal(pc: Tuple[T, ...], goal: T):
    """(pc, goal) → list of (pc, atomic goal) by splitting conjunctions / implications."""
    if goal.op == "and":
        out = []
        for g in goal.args:
            out.extend(split_goal(pc, g))
        return out
    if goal.op == "or" and len(goal.args) == 2 and goal.args[0].op == "not":
        # implication a ⇒ b
        return split_goal(pc + (goal.args[0].args[0],), goal.args[1])
    return [(pc, goal)]


def discharge(pc: Tuple[T, ...], goal: T, timeout_s: float, poly_backend=None) -> dict:
    """Try to prove pc ⇒ goal.  Returns dict(verdict, backend, seconds, env, text)."""
    t0 = time.time()
    res = {"verdict": "unknown", "backend": None, "seconds": 0.0, "env": None, "text": ""}

    def done(v, b, **kw):
        res.update(verdict=v, backend=b, seconds=round(time.time() - t0, 4), **kw)
        return res

    if goal is tm.TRUE or goal in pc:
        return done("proved", "structural")
    if goal is tm.FALSE and not pc:
        return done("refuted", "structural", env={}, text="goal is the constant false")
    parts = split_goal(pc, goal)
    if len(parts) > 1 or parts[0][1] is not goal:
        worst = None
        backends = []
        for p, g in parts:
            r = discharge(p, g, timeout_s, poly_backend)
            backends.append(r["backend"])
            if r["verdict"] == "refuted":
                r["seconds"] = round(time.time() - t0, 4)
                return r
            if r["verdict"] == "unknown":
                worst = r
        if worst is not None:
            worst["seconds"] = round(time.time() - t0, 4)
            return worst
        bs = sorted({b for b in backends if b})
        return done("proved", "+".join(bs))
    # 1. polynomial identity for equalities
    if poly_backend is not None and goal.op == "eq" and goal.args[0].sort != "B":
        try:
            ok, why = poly_backend(pc, goal.args[0], goal.args[1], max(2.0, timeout_s))
            if ok:
                return done("proved", "ideal-sympy", text=why)
        except tm.Unsupported as e:
            res["text"] = f"poly: {e}"
    # 1b. rewrite with the equalities of the path condition (lemmas): larger side -> smaller side
    try:
        from . import poly as _poly

        pc, goal = _poly.rewrite_vc(pc, goal)
        if goal is tm.TRUE or goal in pc:
            return done("proved", "rewriting")
    except tm.Unsupported:
        pass
    # 2. congruence of opaque atoms (sqrt, trig, pow ...): unify provably equal applications
    cpc, cgoal = pc, goal
    try:
        from . import canon

        out, st = canon.canonicalise(list(pc) + [goal], budget_s=max(10.0, timeout_s * 3), pc=())
        if st.get("merged"):
            cpc, cgoal = tuple(out[:-1]), out[-1]
            res["text"] += f" canon merged {st['merged']}/{st['atoms']} atoms;"
            if cgoal is tm.TRUE or cgoal in cpc:
                return done("proved", "congruence")
            if cgoal.op == "eq" and cgoal.args[0] is cgoal.args[1]:
                return done("proved", "congruence")
            if poly_backend is not None and cgoal.op == "eq" and cgoal.args[0].sort != "B":
                try:
                    ok, why = poly_backend(cpc, cgoal.args[0], cgoal.args[1], max(2.0, timeout_s))
                    if ok:
                        return done("proved", "congruence+ideal-sympy", text=why)
                except tm.Unsupported:
                    pass
    except tm.Unsupported:
        pass
    tag = "congruence+" if cgoal is not goal else ""
    # 3. SMT on the abstraction (big non-linear subterms → fresh variables)
    try:
        ab, facts = abstract(list(cpc) + [cgoal])
        if any(a is not b for a, b in zip(ab, list(cpc) + [cgoal])):
            r, info, dt = z3_check(ab[:-1] + facts, ab[-1], int(min(timeout_s, 6.0) * 1000), want_model=False)
            if r == "unsat":
                return done("proved", tag + "smt-z3-abstraction")
    except tm.Unsupported:
        pass
    # 4. SMT on the full VC
    try:
        r, info, dt = z3_check(cpc, cgoal, int(timeout_s * 1000))
    except tm.Unsupported as e:
        return done("unknown", "z3", text=f"unsupported: {e}")
    if r == "unsat":
        return done("proved", tag + "smt-z3")
    if r == "sat":
        return done("refuted", "smt-z3", env=info, text="z3 model")
    return done("unknown", "smt-z3", text=f"z3: {info}; {res['text']}")
