"""./check <Cnn> [--tier quick|thorough] [--replay file] [--relock] [--only substr] [-v]

Exit codes: 0 held / 1 violation (VIOLATION line, replay file) / 2 undecided / 3 checker error.
"""
from __future__ import annotations

import argparse
import hashlib
import importlib
import json
import multiprocessing as mp
import os
import subprocess
import sys
import time
import traceback

VERIF = os.path.dirname(os.path.dirname(os.path.abspath(__file__)))
LOCK = os.path.join(VERIF, "contracts", "obligations.lock")
FINDINGS = os.path.join(VERIF, "known_findings.jsonl")

TRUSTED_BASE = [
    "A1 floats treated as mathematical reals (DTYPE rebound to object; rounding/NaN/overflow not modelled)",
    "A3 CPython executes the real function bodies; pyvc proxies/AST call-shims assumed meaning-preserving "
    "(differential-tested against the plain package on every run)",
    "A4 mathematical facts given to the solver as axioms (sqrt, trig signs, arccos, pow, Cauchy-Schwarz): proved over "
    "Mathlib's reals in lean/Axioms.lean (re-checked by the thorough tier); that pyvc states the same formulas is by inspection",
    "A5 z3 4/5 (unsat verdicts), sympy polys (zero remainder) trusted",
    "divisors that are symbolic are assumed non-zero (ZeroDivision/inf paths not modelled)",
]

# ------------------------------------------------------------------------------ workers
_W = {}


def _init(mode_instrument: bool, prop: str):
    sys.path.insert(0, VERIF)
    sys.setrecursionlimit(10000)
    import warnings

    warnings.simplefilter("ignore")
    from pyvc import loader

    loader.install(mode_instrument)
    _W["prop"] = prop
    _W["instrument"] = mode_instrument
    try:
        _W["module"] = importlib.import_module(f"props.{prop}")
        _W["err"] = None
    except Exception:  # noqa: BLE001
        _W["module"] = None
        _W["err"] = traceback.format_exc()


def _proofs():
    from pyvc import harness

    return {p.name: p for p in harness.REGISTRY.get(_W["prop"], [])}


def _w_list(_):
    if _W["err"]:
        return {"error": _W["err"]}
    from pyvc import harness, loader

    out = []
    for p in harness.REGISTRY.get(_W["prop"], []):
        fns = []
        for f in p.functions:
            fns.append({"name": f, **_src(f)})
        out.append({"name": p.name, "cases": list(range(len(p.cases))), "labels": [harness.case_label(c) for c in p.cases],
                    "level": p.level, "bounded": p.bounded, "samples": p.samples, "functions": fns, "uses": p.uses,
                    "note": p.note, "inlined": p.inlined, "timeout": p.timeout, "thorough_only": p.thorough_only})
    return {"proofs": out, "extraction": loader.extraction_report()}


def _src(qual: str):
    from pyvc import loader

    try:
        modname, _, attr = qual.partition(":")
        obj = importlib.import_module(modname)
        for part in attr.split("."):
            obj = obj.__dict__[part] if isinstance(obj, type) and part in obj.__dict__ else getattr(obj, part)
        if isinstance(obj, (staticmethod, classmethod)):
            obj = obj.__func__
        return loader.source_of(obj)
    except Exception as e:  # noqa: BLE001
        return {"error": f"{type(e).__name__}: {e}"}


def _w_symbolic(job):
    name, ci, timeout_s, job_timeout_s, seed = job
    from pyvc import harness, models
    from pyvc import terms as tm

    if _W["err"]:
        return {"proof": name, "case": ci, "error": "engine: import failed\n" + _W["err"], "obligations": {}}
    p = _proofs()[name]
    try:
        r = harness.run_symbolic(p, p.cases[ci], p.timeout or timeout_s, job_timeout_s, seed)
    except Exception:  # noqa: BLE001
        r = {"proof": name, "obligations": {}, "error": "engine: " + traceback.format_exc()[-1500:]}
    r["case_index"] = ci
    r["models_used"] = sorted(models.USED)
    tm.reset_soft() if hasattr(tm, "reset_soft") else None
    return r


def _w_concrete(job):
    name, ci, inputs, seed, n = job
    from pyvc import harness

    if _W["err"]:
        return {"proof": name, "case": ci, "error": "engine: import failed\n" + _W["err"], "failures": [], "evaluations": 0}
    p = _proofs()[name]
    try:
        r = harness.run_concrete(p, p.cases[ci], inputs, seed, n)
    except Exception:  # noqa: BLE001
        r = {"proof": name, "failures": [], "evaluations": 0, "error": "engine: " + traceback.format_exc()[-1500:]}
    r["case_index"] = ci
    r["instrumented"] = _W["instrument"]
    return r


def _w_conformance(seed):
    from pyvc import models

    return models.conformance(seed) + models.conformance_repo(seed)


# ------------------------------------------------------------------------------ helpers
def load_lock():
    if os.path.exists(LOCK):
        with open(LOCK) as fh:
            return json.load(fh)
    return {}


def load_findings(prop):
    out = []
    if os.path.exists(FINDINGS):
        with open(FINDINGS) as fh:
            for line in fh:
                line = line.strip()
                if line and not line.startswith("#"):
                    e = json.loads(line)
                    if e.get("property") == prop:
                        out.append(e)
    return out


def _pool(instrument, prop, n):
    ctx = mp.get_context("fork")
    return ctx.Pool(n, initializer=_init, initargs=(instrument, prop), maxtasksperchild=None)


def write_replay(prop, payload) -> str:
    d = os.path.join(VERIF, "replays")
    os.makedirs(d, exist_ok=True)
    h = hashlib.sha1(json.dumps(payload, sort_keys=True, default=str).encode()).hexdigest()[:12]
    path = os.path.join(d, f"{prop}-{h}.json")
    with open(path, "w") as fh:
        json.dump(payload, fh, indent=1, default=str)
    return path


def native_replay(prop, proof_name, ci, inputs, seed):
    """Run the harness on concrete inputs against the plain (uninstrumented) package in a
    fresh process.  Returns the run_concrete dict."""
    code = (
        "import sys, json; sys.path.insert(0, %r)\n"
        "from pyvc import driver\n"
        "driver._init(False, %r)\n"
        "r = driver._w_concrete((%r, %d, json.loads(sys.stdin.read()), %d, 1))\n"
        "print('\\n@@RESULT@@' + json.dumps(r, default=str))\n"
    ) % (VERIF, prop, proof_name, ci, seed)
    try:
        pr = subprocess.run([sys.executable, "-c", code], input=json.dumps(inputs), capture_output=True, text=True,
                            timeout=600, env=dict(os.environ))
    except subprocess.TimeoutExpired:
        return {"error": "replay timeout", "failures": []}
    if "@@RESULT@@" not in pr.stdout:
        return {"error": "replay crashed: " + pr.stderr[-800:], "failures": []}
    return json.loads(pr.stdout.split("@@RESULT@@")[1])


def lean_axioms_start():
    """A4: the mathematical facts handed to the solver are stated and proved over Mathlib's reals in
    lean/Axioms.lean; the thorough tier re-checks that file (about 2 min, runs beside the pools)."""
    import shutil

    src = os.path.join(VERIF, "lean", "Axioms.lean")
    if not os.path.exists(src) or shutil.which("lean") is None:
        return None
    return subprocess.Popen(["lean", src], stdout=subprocess.PIPE, stderr=subprocess.STDOUT, text=True, cwd=os.path.join(VERIF, "lean"))


def lean_axioms_finish(proc):
    if proc is None:
        return {"status": "not run (lean or lean/Axioms.lean absent)"}
    try:
        out, _ = proc.communicate(timeout=1500)
    except subprocess.TimeoutExpired:
        proc.kill()
        return {"status": "timeout"}
    with open(os.path.join(VERIF, "lean", "Axioms.lean")) as fh:
        text = fh.read()
    bad = proc.returncode != 0 or "error" in out or "sorry" in out or "sorry" in text
    return {"status": "rejected" if bad else "accepted", "theorems": text.count("\ntheorem "), "exit": proc.returncode,
            "checker": "lean 4 + Mathlib", "output": out[-600:]}


# ------------------------------------------------------------------------------ main check
def main(argv=None):
    ap = argparse.ArgumentParser()
    ap.add_argument("prop")
    ap.add_argument("--tier", default=os.environ.get("VERIF_TIER") or "quick", choices=["quick", "thorough"])
    ap.add_argument("--replay")
    ap.add_argument("--relock", action="store_true")
    ap.add_argument("--only", default=None)
    ap.add_argument("-v", action="store_true")
    ap.add_argument("--jobs", type=int, default=int(os.environ.get("VERIF_JOBS", "0")) or min(16, os.cpu_count() or 4))
    ap.add_argument("--no-evidence", action="store_true")
    a = ap.parse_args(argv)
    try:
        if a.replay:
            return do_replay(a)
        return do_check(a)
    except SystemExit:
        raise
    except Exception:  # noqa: BLE001
        traceback.print_exc()
        print("CHECKER-ERROR (exit 3)")
        return 3


def do_replay(a):
    with open(a.replay) as fh:
        rp = json.load(fh)
    prop = rp["property"]
    print(f"replaying {rp['obligation']} natively on the plain package ({rp.get('function')})")
    if rp.get("inputs") is None:
        print("this replay file carries no concrete input (no-failing-input-found); verifier output:")
        print(rp.get("verifier_output"))
        return 0
    r = native_replay(prop, rp["proof"], rp["case_index"], rp["inputs"], 0)
    if r.get("error"):
        print("replay error:", r["error"])
        return 3
    fails = [f for f in r["failures"]]
    for f in fails:
        print("contract clause violated:", f["oid"], f["info"])
    if fails:
        print(f"VIOLATION property={prop} replay={a.replay}")
        return 1
    print("no clause violated on this input (on the current tree)")
    return 0


def do_check(a):
    t0 = time.time()
    prop = a.prop
    seed = int(os.environ.get("VERIF_SEED", "0") or 0)
    tier = a.tier
    vc_timeout = 20.0 if tier == "quick" else 120.0
    job_timeout = 600.0 if tier == "quick" else 9000.0
    findings = load_findings(prop)
    lock = load_lock()

    lean_proc = lean_axioms_start() if tier == "thorough" else None
    cross_log = None
    if tier == "thorough" and os.path.exists("/usr/bin/z3"):
        os.makedirs(os.path.join(VERIF, "replays"), exist_ok=True)
        cross_log = os.path.join(VERIF, "replays", f"crosscheck-{prop}-{os.getpid()}.log")
        os.environ["PYVC_CROSSCHECK"] = cross_log
    sp = _pool(True, prop, a.jobs)
    listing = sp.apply(_w_list, (0,))
    if "error" in listing:
        print(listing["error"])
        print("CHECKER-ERROR: cannot import harness / package (exit 3)")
        sp.terminate()
        return 3
    proofs = listing["proofs"]
    if a.only:
        proofs = [p for p in proofs if a.only in p["name"]]
    sjobs = [(p["name"], ci, vc_timeout, job_timeout, seed) for p in proofs
             if p["level"] != "B" and (tier == "thorough" or not p["thorough_only"]) for ci in p["cases"]]
    nsamp = (lambda p: p["samples"] if tier == "quick" else p["samples"] * 8)
    cjobs = [(p["name"], ci, None, seed, nsamp(p)) for p in proofs if p["bounded"] for ci in p["cases"]]

    pp = _pool(False, prop, max(2, a.jobs // 2))
    # symbolic first in the queue; concrete (plain + instrumented differential) alongside
    s_async = sp.map_async(_w_symbolic, sjobs, chunksize=1)
    c_async = pp.map_async(_w_concrete, cjobs, chunksize=1)
    conf_async = pp.apply_async(_w_conformance, (seed,))
    cres = c_async.get()
    conf = conf_async.get()
    pp.close()
    sres = s_async.get()
    blevel = {p["name"] for p in proofs if p["level"] == "B"}
    # differential: instrumented package on the same concrete inputs (only for proofs that have a symbolic part)
    d_async = sp.map_async(_w_concrete, [j for j in cjobs if j[0] not in blevel], chunksize=1)
    dres = d_async.get()
    sp.close()

    engine_errors = []
    undecided = []
    obligations = {}
    label = {(p["name"], ci): p["labels"][ci] for p in proofs for ci in p["cases"]}
    level_of = {p["name"]: p["level"] for p in proofs}
    jobinfo = {}
    for r in sres:
        key = (r["proof"], r.get("case_index"))
        jobinfo[key] = r
        if r.get("error"):
            (engine_errors if r["error"].startswith("engine") else undecided).append(
                f"{prop}/{r['proof']}[{label.get(key)}]: {r['error']}")
        for oid, rec in r["obligations"].items():
            rec = dict(rec)
            rec["proof"], rec["case_index"] = r["proof"], r.get("case_index")
            rec["level"] = level_of[r["proof"]]
            obligations[oid] = rec

    # ---- bounded tier + differential
    b_eval = b_rej = b_clauses = 0
    b_fail = []
    for r in cres:
        if r.get("error"):
            (engine_errors if r["error"].startswith("engine") else undecided).append(f"{prop}/{r['proof']}: bounded tier: {r['error']}")
        b_eval += r.get("evaluations", 0)
        b_rej += r.get("rejected", 0)
        b_clauses += r.get("clauses", 0)
        if not r.get("error") and (r.get("evaluations", 0) == 0 or r.get("clauses", 0) == 0) and level_of.get(r["proof"]) == "B":
            # vacuity guard of the bounded tier, for proofs whose deciding part it is (level B): a case whose samples are
            # all rejected by the precondition (or that reaches no clause) has checked nothing.  For proved cases the
            # bounded run is a supplement and vacuity is guarded by the cover check of the symbolic tier.
            undecided.append(f"{prop}/{r['proof']}[{label.get((r['proof'], r['case_index']))}]: bounded tier evaluated no contract "
                             f"clause ({r.get('rejected', 0)} samples rejected by the precondition)")
        for f in r.get("failures", []):
            f["proof"], f["case_index"] = r["proof"], r["case_index"]
            b_fail.append(f)
    # second, deeper bounded pass for proof cases the verifier left undecided (a changed tree may push a
    # function outside the engine's reach; the run-time contract can still produce a concrete violation)
    weak = set()
    for r in sres:
        if r.get("error") or any(o["verdict"] == "unknown" for o in r["obligations"].values()):
            weak.add((r["proof"], r.get("case_index")))
    failed_keys = {(f["proof"], f["case_index"]) for f in b_fail}
    boost = [(n_, ci, None, seed + 1, ns * 10) for (n_, ci, _, _, ns) in cjobs if (n_, ci) in weak and (n_, ci) not in failed_keys]
    if boost:
        pp2 = _pool(False, prop, max(2, a.jobs // 2))
        for r in pp2.map(_w_concrete, boost, chunksize=1):
            b_eval += r.get("evaluations", 0)
            b_rej += r.get("rejected", 0)
            b_clauses += r.get("clauses", 0)
            for f in r.get("failures", []):
                f["proof"], f["case_index"] = r["proof"], r["case_index"]
                b_fail.append(f)
        pp2.close()
    diff_bad = []
    dd = {(r["proof"], r["case_index"]): r for r in dres}
    for r in cres:
        o = dd.get((r["proof"], r["case_index"]))
        if o is None or o.get("error") or r.get("error"):
            if o is not None and o.get("error"):
                diff_bad.append(f"{r['proof']}[{r['case_index']}]: instrumented concrete run: {o['error'][:300]}")
            continue
        if o["digest"] != r["digest"]:
            diff_bad.append(f"{r['proof']}[{label.get((r['proof'], r['case_index']))}]: instrumented and plain package disagree on concrete inputs")
    if diff_bad:
        engine_errors.extend("differential: " + d for d in diff_bad)
    lean = lean_axioms_finish(lean_proc) if tier == "thorough" else {"status": "not run in the quick tier (thorough tier re-checks lean/Axioms.lean)"}
    if lean.get("status") in ("rejected", "timeout"):
        engine_errors.append(f"A4: lean/Axioms.lean was not accepted by Lean: {lean}")
    cross = {"status": "not run in the quick tier"}
    if cross_log:
        tally = {}
        if os.path.exists(cross_log):
            seen_keys = {}
            with open(cross_log) as fh:
                for line in fh:
                    k, _, v = line.strip().partition(" ")
                    seen_keys[k] = v
            for v in seen_keys.values():
                v = v.split(":")[0]
                tally[v] = tally.get(v, 0) + 1
            os.unlink(cross_log)
        cross = {"status": "'unsat' answers of z3 5.1 (goals and pruned branches) re-asked to the z3 4.8.12 binary as SMT-LIB text (5 s each); "
                           "cvc5 leaves these non-linear queries unknown", "distinct_queries": sum(tally.values()),
                 "second_solver_agrees_unsat": tally.get("unsat", 0), "second_solver_unknown_or_timeout": tally.get("unknown", 0) + tally.get("timeout", 0),
                 "second_solver_error": tally.get("error", 0), "second_solver_says_sat": tally.get("sat", 0)}
        if tally.get("sat"):
            engine_errors.append(f"A5: z3 4.8.12 answers sat on {tally['sat']} queries that z3 5.1 answered unsat (kept as replays/crosscheck-*.smt2)")
    if conf:
        engine_errors.append(f"model conformance failed (library model differs from the real function; proofs using it are void): {conf[:3]}")

    # ---- lock
    lock_key = prop if tier == "quick" else prop + ":thorough"
    # the thorough tier generates a superset of the quick tier's obligations
    locked = sorted(set(lock.get(lock_key, [])) | set(lock.get(prop, [])))
    if a.relock:
        import fcntl

        os.makedirs(os.path.dirname(LOCK), exist_ok=True)
        with open(LOCK + ".guard", "w") as guard:  # concurrent checks of other properties re-lock too
            fcntl.flock(guard, fcntl.LOCK_EX)
            lock = load_lock()
            lock[lock_key] = sorted(obligations)
            with open(LOCK + ".tmp", "w") as fh:
                json.dump(lock, fh, indent=0, sort_keys=True)
            os.replace(LOCK + ".tmp", LOCK)
        locked = lock[lock_key]
        print(f"relocked {len(locked)} obligations for {prop}")
    if not a.only:
        for oid in locked:
            if oid not in obligations:
                undecided.append(f"{oid}: locked obligation was not generated on this tree")
    if not obligations:
        undecided.append("zero obligations generated")

    # ---- verdicts
    known_ids = {}
    for f in findings:
        if f.get("status") == "finding":
            for oid in f.get("obligations", []):
                known_ids[oid] = f
    violations = []  # (oid, replay payload)
    known_hit = {}
    n_discharged = n_shape = 0
    solver_s = 0.0
    backends = {}
    for oid, rec in sorted(obligations.items()):
        solver_s += rec["seconds"]
        for b in rec["backends"]:
            backends[b] = backends.get(b, 0) + 1
        if rec["verdict"] == "proved":
            if not rec.get("cover"):
                undecided.append(f"{oid}: vacuous (no satisfiable path reaches the clause)")
                continue
            n_discharged += 1
            if rec["level"] == "S":
                n_shape += 1
        elif rec["verdict"] == "unknown":
            if oid in known_ids:
                known_hit.setdefault(id(known_ids[oid]), (known_ids[oid], []))[1].append(oid)
            else:
                undecided.append(f"{oid}: {rec['text']}")
        else:  # refuted
            if oid in known_ids:
                known_hit.setdefault(id(known_ids[oid]), (known_ids[oid], []))[1].append(oid)
                continue
            violations.append((oid, rec))
    for f in b_fail:
        if f["oid"] in known_ids:
            known_hit.setdefault(id(known_ids[f["oid"]]), (known_ids[f["oid"]], []))[1].append(f["oid"])

    out_lines = []
    exit_code = 0
    reported = set()
    fn_of = {p["name"]: p["functions"] for p in proofs}
    # 1. refuted obligations → concretise and replay natively
    for oid, rec in violations:
        env = rec.get("env")
        payload = {"property": prop, "obligation": oid, "proof": rec["proof"], "case_index": rec["case_index"],
                   "case": label.get((rec["proof"], rec["case_index"])), "function": fn_of.get(rec["proof"]),
                   "verifier_output": {"verdict": "refuted", "backends": rec["backends"], "text": rec["text"],
                                       "goal": rec.get("goal")},
                   "inputs": None, "replay_cmd": None}
        confirmed = False
        if env is not None:
            rr = native_replay(prop, rec["proof"], rec["case_index"], env, seed)
            payload["native_replay"] = {k: rr.get(k) for k in ("failures", "error", "rejected")}
            if any(f["oid"] == oid for f in rr.get("failures", [])) or rr.get("failures"):
                confirmed = True
                payload["inputs"] = env
        if not confirmed:
            # any bounded-tier failure of the same obligation gives a concrete input
            for f in b_fail:
                if f["oid"] == oid:
                    payload["inputs"] = f["inputs"]
                    payload["native_replay"] = {"failures": [f]}
                    confirmed = True
                    break
        if not confirmed and rec["text"].startswith("numeric"):
            # a float counter-model of the VC that does not reproduce natively: not a verifier verdict
            undecided.append(f"{oid}: solver unknown; numeric counter-model did not replay natively")
            continue
        path = write_replay(prop, payload)
        payload["replay_cmd"] = f"./check {prop} --replay {path}"
        with open(path, "w") as fh:
            json.dump(payload, fh, indent=1, default=str)
        tail = "" if confirmed else " no-failing-input-found"
        out_lines.append(f"VIOLATION property={prop} replay={path}{tail}")
        out_lines.append(f"  obligation {oid} refuted ({','.join(rec['backends'])}): {rec['text'][:200]}")
        reported.add(oid)
        exit_code = 1
    # 2. bounded-tier failures not already reported (contract violated natively on a concrete input)
    for f in b_fail:
        if f["oid"] in reported or f["oid"] in known_ids:
            continue
        payload = {"property": prop, "obligation": f["oid"], "proof": f["proof"], "case_index": f["case_index"],
                   "case": label.get((f["proof"], f["case_index"])), "function": fn_of.get(f["proof"]),
                   "verifier_output": {"verdict": "run-time contract violation in the bounded tier", "info": f["info"]},
                   "inputs": f["inputs"]}
        path = write_replay(prop, payload)
        out_lines.append(f"VIOLATION property={prop} replay={path}")
        out_lines.append(f"  contract clause {f['oid']} violated natively on a concrete input (bounded tier)")
        reported.add(f["oid"])
        exit_code = 1
    for _, (f, oids) in known_hit.items():
        out_lines.append(f"KNOWN-FINDING: property={prop} {f['what']} [{len(set(oids))} obligation(s)]")
    stale = [f for f in findings if f.get("status") == "finding" and id(f) not in known_hit]
    for f in stale:
        out_lines.append(f"note: listed finding no longer reproduces: {f['what']}")

    if engine_errors:
        exit_code = 3 if exit_code == 0 else exit_code
    elif undecided and exit_code == 0:
        exit_code = 2

    wall = round(time.time() - t0, 2)
    n_known = sum(len(set(o)) for _, o in known_hit.values())
    oblig_n = len(obligations) - len({o for _, os_ in known_hit.values() for o in os_ if o in obligations})
    # ---- evidence
    samples = []
    for oid, rec in list(sorted(obligations.items()))[:: max(1, len(obligations) // 12)][:12]:
        samples.append({"obligation": oid, "verdict": rec["verdict"], "backends": rec["backends"], "vcs": rec["vcs"],
                        "solver_s": rec["seconds"], "level": rec["level"]})
    fns = []
    seen = set()
    for p in proofs:
        for f in p["functions"]:
            if f["name"] not in seen:
                seen.add(f["name"])
                fns.append(f)
    models_used = sorted({m for r in sres for m in r.get("models_used", [])})
    notes = sorted({n for r in sres for n in r.get("notes", [])})
    ev = {
        "property_id": prop,
        "tier": tier,
        "seed": seed,
        "level": "proof",
        "coverage": {
            "obligations": oblig_n,
            "discharged": n_discharged,
            "checker_cmd": f"./check {prop} --tier {tier}",
            "trusted_base": TRUSTED_BASE + [f"A2 model: {m}" for m in models_used],
            "samples": samples,
            "exhaustive": False,
            "explanation": "obligations = distinct named contract clauses × declared cases; each is proved on every "
                           "execution path of the real function (vcs = path-level verification conditions). "
                           "Obligations suppressed by a listed known finding are not counted in 'obligations'.",
            "path_vcs": sum(r["vcs"] for r in obligations.values()),
            "paths_explored": sum(r.get("paths", 0) for r in sres),
            "shape_bounded_discharged": n_shape,
            "proved_for_all_inputs": n_discharged - n_shape,
            "known_finding_obligations": n_known,
            "undecided": undecided[:50],
            "backends": backends,
            "solver_seconds": round(solver_s, 2),
            "functions_under_contract": fns,
            "proofs": [{"name": p["name"], "level": p["level"], "cases": len(p["cases"]), "uses": p["uses"],
                        "inlined": p["inlined"], "note": p["note"]} for p in proofs],
            "extraction": listing["extraction"],
            "bounded_tier": {"label": "bounded (never counted as proved)", "evaluations": b_eval, "rejected_by_precondition": b_rej,
                             "clauses_evaluated": b_clauses, "failures": len(b_fail),
                             "rule": "seeded random concrete inputs per proof×case; the same contract clauses "
                                     "evaluated at run time on the plain package",
                             "differential_instrumented_vs_plain": "agree" if not diff_bad else diff_bad[:5]},
            "model_conformance": "ok" if not conf else conf[:3],
            "axioms_A4_lean": lean,
            "solver_crosscheck_A5": cross,
            "locked_obligations": len(locked),
            "engine_errors": engine_errors[:20],
            "notes": notes,
        },
        "assumptions": TRUSTED_BASE + [f"A2 model: {m}" for m in models_used] + notes,
        "wall_s": wall,
        "violations": sum(1 for l in out_lines if l.startswith("VIOLATION")),
    }
    if not a.no_evidence and not a.only:
        os.makedirs(os.path.join(VERIF, "evidence"), exist_ok=True)
        with open(os.path.join(VERIF, "evidence", f"{prop}.json"), "w") as fh:
            json.dump(ev, fh, indent=1, default=str)
        if tier == "thorough":  # kept beside the per-run file, which the next quick run rewrites
            with open(os.path.join(VERIF, "evidence", f"{prop}.thorough.json"), "w") as fh:
                json.dump(ev, fh, indent=1, default=str)

    for l in out_lines:
        print(l)
    if a.v or undecided or engine_errors:
        for u in undecided[:40]:
            print("UNDECIDED:", u)
        for e in engine_errors[:20]:
            print("ENGINE-ERROR:", e)
    if a.v:
        for oid, rec in sorted(obligations.items()):
            print(f"  {rec['verdict']:8s} {oid}  {rec['backends']} vcs={rec['vcs']} {rec['seconds']}s")
    print(f"{prop} {tier}: obligations={len(obligations)} discharged={n_discharged} (shape-bounded {n_shape}) "
          f"known-finding={n_known} undecided={len(undecided)} violations={ev['violations']} "
          f"bounded-evals={b_eval} wall={wall}s exit={exit_code}")
    if tier == "thorough":
        print("A4 lean:", lean.get("status"), "| A5 cross-check:", {k: v for k, v in cross.items() if k != "status"})
    return exit_code


if __name__ == "__main__":
    sys.exit(main())
