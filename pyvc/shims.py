"""Pass-through shims called from the instrumented package (DESIGN §2.1 item 2).
Every shim is the identity (the plain builtin / library function) on concrete values."""
from __future__ import annotations

import builtins
import math

import numpy as np

from . import terms as tm
from .sym import SBool, SReal, Unsupported, is_symbolic, lift

CALLS = [0]


def int_(x=0, *a):
    CALLS[0] += 1
    if isinstance(x, SReal):
        c = x.concrete()
        if c is not None:
            return int(c)
        return SReal(tm.trunc(x.t))
    if isinstance(x, np.ndarray) and x.dtype == object and x.shape == ():
        return int_(x.item())
    return builtins.int(x, *a)


def float_(x=0.0):
    CALLS[0] += 1
    if isinstance(x, SReal):
        c = x.concrete()
        return float(c) if c is not None else x
    if isinstance(x, np.ndarray) and x.dtype == object and x.shape == ():
        return float_(x.item())
    return builtins.float(x)


def round_(x, n=None):
    CALLS[0] += 1
    if isinstance(x, SReal) and x.concrete() is None:
        raise Unsupported("round() of a symbolic value")
    if isinstance(x, SReal):
        x = x.concrete()
    return builtins.round(x, n) if n is not None else builtins.round(x)


def isinstance_(obj, types):
    CALLS[0] += 1
    if isinstance(obj, SReal):
        ts = types if isinstance(types, tuple) else (types,)
        if obj.is_int:
            return builtins.int in ts or builtins.isinstance(obj, types)
        return builtins.float in ts or builtins.isinstance(obj, types)
    return builtins.isinstance(obj, types)


class SymSet:
    """A small set over possibly symbolic scalars: membership by equality decisions."""

    def __init__(self, items=()):
        self.items = []
        for x in items:
            self.add(x)

    def add(self, x):
        for y in self.items:
            if bool(x == y):
                return
        self.items.append(x)

    def __len__(self):
        return len(self.items)

    def __iter__(self):
        return iter(list(self.items))

    def __contains__(self, x):
        return any(bool(x == y) for y in self.items)

    def __eq__(self, other):
        try:
            others = list(other)
        except TypeError:
            return NotImplemented
        return len(others) == len(self.items) and all(x in self for x in others) and all(
            any(bool(x == y) for y in others) for x in self.items)

    def __ne__(self, other):
        r = self.__eq__(other)
        return r if r is NotImplemented else not r

    __hash__ = None

    def issubset(self, other):
        return all(x in other for x in self.items)

    def __repr__(self):
        return "SymSet(" + ", ".join(map(repr, self.items)) + ")"


class OrderedSet(builtins.set):
    """A set that iterates in insertion order.  CPython iterates sets of identity-hashed objects in
    address order, which differs from run to run; re-execution based path exploration needs a
    deterministic order, and ITER_REVERSED lets a harness run the adversarial (reversed) schedule."""

    ITER_REVERSED = [False]
    ITER_SEED = [None]   # an integer: iterate in a pseudo-random order fixed by (seed, members) - further schedules for A8

    def __init__(self, items=()):
        super().__init__()
        self._order = {}
        OrderedSet.CREATED[0] += 1
        self._rank = OrderedSet.CREATED[0]
        for x in items:
            self.add(x)

    def add(self, x):
        if x not in self:
            super().add(x)
            self._order[id(x) if _idhash(x) else x] = x

    def discard(self, x):
        if x in self:
            super().discard(x)
            self._order.pop(id(x) if _idhash(x) else x, None)

    def remove(self, x):
        if x not in self:
            raise KeyError(x)
        self.discard(x)

    def update(self, *others):
        for o in others:
            for x in o:
                self.add(x)

    def clear(self):
        super().clear()
        self._order.clear()

    def pop(self):
        k = next(iter(self._order))
        x = self._order[k]
        self.discard(x)
        return x

    def __iter__(self):
        vals = list(self._order.values())
        if self.ITER_SEED[0] is not None and len(vals) > 1:
            import random as _random

            _random.Random(self.ITER_SEED[0] * 1000003 + len(vals) * 7919 + self._salt()).shuffle(vals)
            return iter(vals)
        return iter(reversed(vals) if self.ITER_REVERSED[0] else vals)

    def _salt(self):
        # distinguishes sets of equal size without depending on object addresses: creation rank of the set
        # (a harness that sets ITER_SEED resets OrderedSet.CREATED[0] first, so that runs are reproducible)
        return self._rank

    CREATED = [0]

    def copy(self):
        return OrderedSet(self)

    def __reduce__(self):
        return (OrderedSet, (list(self._order.values()),))

    def __deepcopy__(self, memo):
        import copy as _c

        return OrderedSet(_c.deepcopy(list(self._order.values()), memo))


def _idhash(x):
    return type(x).__hash__ is object.__hash__


def set_(items=()):
    CALLS[0] += 1
    items = list(items)
    if any(isinstance(x, (SReal, SBool)) and is_symbolic(x) for x in items):
        return SymSet(items)
    return OrderedSet(items)


def range_(*a):
    CALLS[0] += 1
    aa = []
    for x in a:
        if isinstance(x, SReal):
            c = x.concrete()
            if c is None:
                raise Unsupported("range() with a symbolic bound (loop needs an invariant)")
            x = int(c)
        aa.append(x)
    return builtins.range(*aa)


def isclose(a, b, *, rel_tol=1e-09, abs_tol=0.0):
    CALLS[0] += 1
    if not (is_symbolic(a) or is_symbolic(b)):
        if isinstance(a, SReal):
            a = a.concrete()
        if isinstance(b, SReal):
            b = b.concrete()
        return math.isclose(a, b, rel_tol=rel_tol, abs_tol=abs_tol)
    d = abs(a - b)
    return bool(d <= max(rel_tol * max(abs(a), abs(b)), abs_tol))


def isnan(x):
    CALLS[0] += 1
    if isinstance(x, SReal):
        return False  # A1: reals
    if isinstance(x, np.ndarray) and x.dtype == object:
        return np.zeros(x.shape, dtype=bool)
    return np.isnan(x)


def clip(x, lo, hi, **kw):
    CALLS[0] += 1
    if isinstance(x, SReal) or (isinstance(x, np.ndarray) and x.dtype == object and x.shape == ()):
        if isinstance(x, np.ndarray):
            x = x.item()
        if bool(x < lo):
            return lo
        if bool(x > hi):
            return hi
        return x
    return np.clip(x, lo, hi, **kw)


def arctan2(y, x):
    CALLS[0] += 1
    if is_symbolic(y) or is_symbolic(x):
        return SReal(tm.fn("arctan2", lift(y), lift(x)))
    return np.arctan2(y, x)


def np_linalg_norm(x, ord=None, axis=None, keepdims=False):
    CALLS[0] += 1
    if isinstance(x, np.ndarray) and x.dtype == object or is_symbolic(x):
        x = np.asarray(x, dtype=object)
        if ord is not None or keepdims:
            raise Unsupported("np.linalg.norm with ord/keepdims on symbolic data")
        sq = (x * x).sum(axis=axis)
        if isinstance(sq, np.ndarray):
            out = np.empty(sq.shape, dtype=object)
            for i, v in np.ndenumerate(sq):
                out[i] = _sqrt(v)
            return out
        return _sqrt(sq)
    return np.linalg.norm(x, ord=ord, axis=axis, keepdims=keepdims)


def _sqrt(v):
    if isinstance(v, SReal):
        return v.sqrt()
    return math.sqrt(v)


def cross(a, b, **kw):
    """np.cross; numpy's own implementation mixes float64 temporaries into object arrays."""
    CALLS[0] += 1
    aa, bb = np.asarray(a), np.asarray(b)
    if aa.dtype != object and bb.dtype != object:
        return np.cross(a, b, **kw)
    if kw or aa.shape[-1] != 3 or bb.shape[-1] != 3:
        raise Unsupported("np.cross on object arrays with axis arguments / non-3-vectors")
    aa, bb = np.broadcast_arrays(aa.astype(object), bb.astype(object))
    out = np.empty(aa.shape, dtype=object)
    out[..., 0] = aa[..., 1] * bb[..., 2] - aa[..., 2] * bb[..., 1]
    out[..., 1] = aa[..., 2] * bb[..., 0] - aa[..., 0] * bb[..., 2]
    out[..., 2] = aa[..., 0] * bb[..., 1] - aa[..., 1] * bb[..., 0]
    return out


def _unary(name):
    real = getattr(np, name)
    mfun = {"arccos": math.acos, "arcsin": math.asin, "arctan": math.atan}.get(name) or getattr(math, name)

    def one(v):
        if isinstance(v, SReal):
            c = v.concrete()
            if c is not None:
                return float(real(c))
            return getattr(v, name)()
        return float(real(v))

    def shim(x, *a, **kw):
        CALLS[0] += 1
        if isinstance(x, SReal):
            return one(x)
        if isinstance(x, np.ndarray) and x.dtype == object:
            if a or kw:
                raise Unsupported(f"np.{name} on an object array with extra arguments")
            if x.shape == ():
                return one(x.item())
            out = np.empty(x.shape, dtype=object)
            for i, v in np.ndenumerate(x):
                out[i] = one(v)
            return out
        return real(x, *a, **kw)

    shim.__name__ = "u_" + name
    return shim


for _n in ("sqrt", "sin", "cos", "tan", "arccos", "arcsin", "arctan", "log", "log10", "exp"):
    globals()["u_" + _n] = _unary(_n)


def _fold(items, pick_left_if):
    it = iter(items)
    best = next(it)
    for v in it:
        if is_symbolic(best) or is_symbolic(v):
            cond = pick_left_if(best, v)  # SBool, not forced
            best = SReal(tm.ite(cond.t if isinstance(cond, SBool) else (tm.TRUE if cond else tm.FALSE), lift(best), lift(v)))
        else:
            if isinstance(best, SReal):
                best = best.concrete()
            if isinstance(v, SReal):
                v = v.concrete()
            best = best if pick_left_if(best, v) else v
    return best


def max_(*a, **kw):
    CALLS[0] += 1
    items = a[0] if len(a) == 1 else a
    if kw or not _any_sym(items):
        return builtins.max(*a, **kw)
    return _fold(list(items), lambda x, y: x >= y)


def min_(*a, **kw):
    CALLS[0] += 1
    items = a[0] if len(a) == 1 else a
    if kw or not _any_sym(items):
        return builtins.min(*a, **kw)
    return _fold(list(items), lambda x, y: x <= y)


def _any_sym(items):
    try:
        items = list(items)
    except TypeError:
        return False
    return any(isinstance(x, SReal) and x.concrete() is None for x in items)


def linspace(start, stop, num=50, endpoint=True, **kw):
    """np.linspace; numpy's version branches on `step == 0`, which forks on symbolic end points."""
    CALLS[0] += 1
    if not (is_symbolic(start) or is_symbolic(stop)):
        a0, b0 = np.asarray(start), np.asarray(stop)
        was_object = a0.dtype == object or b0.dtype == object
        r = np.linspace(_to_float_array(a0) if a0.dtype == object else start, _to_float_array(b0) if b0.dtype == object else stop,
                        num=num, endpoint=endpoint, **kw)
        return r.astype(object) if was_object else r
    if kw:
        raise Unsupported("np.linspace with extra arguments on symbolic data")
    a, b = np.asarray(start, dtype=object), np.asarray(stop, dtype=object)
    n = int(num)
    div = (n - 1) if endpoint else n
    rows = []
    for i in range(n):
        if div <= 0:
            rows.append(a + 0 * b)
        elif endpoint and i == n - 1:
            rows.append(b + 0 * a)
        else:
            from fractions import Fraction

            t = SReal(tm.const(Fraction(i, div))) if i else 0
            rows.append(a + (b - a) * t if i else a + 0 * b)
    out = np.empty((n,) + np.shape(rows[0]), dtype=object)
    for i, r in enumerate(rows):
        out[i] = r
    return out


def _to_float_array(x):
    a = np.asarray(x)
    if a.dtype == object and not is_symbolic(a):
        return np.array([v.concrete() if isinstance(v, SReal) else v for v in a.flat], dtype=float).reshape(a.shape)
    return a


def np_isclose(a, b, rtol=1e-05, atol=1e-08, equal_nan=False):
    CALLS[0] += 1
    if not (is_symbolic(a) or is_symbolic(b)):
        return np.isclose(_to_float_array(a), _to_float_array(b), rtol=rtol, atol=atol, equal_nan=equal_nan)
    aa, bb = np.broadcast_arrays(np.asarray(a, dtype=object), np.asarray(b, dtype=object))
    out = np.empty(aa.shape, dtype=bool)
    for i, x in np.ndenumerate(aa):
        y = bb[i]
        out[i] = bool(abs(x - y) <= atol + rtol * abs(y))
    return out if out.shape else bool(out)


def allclose(a, b, rtol=1e-05, atol=1e-08, equal_nan=False):
    CALLS[0] += 1
    return bool(np.all(np_isclose(a, b, rtol=rtol, atol=atol, equal_nan=equal_nan)))


def _arg_extreme(x, axis, pick):
    a = np.asarray(x)
    if a.dtype != object or not is_symbolic(a):
        return pick(_to_float_array(a), axis=axis) if axis is not None else pick(_to_float_array(a))
    if axis is not None or a.ndim != 1:
        raise Unsupported("np.argmin/argmax with axis on symbolic data")
    best = 0
    for i in range(1, len(a)):
        better = (a[i] < a[best]) if pick is np.argmin else (a[i] > a[best])
        if bool(better):
            best = i
    return best


def argmin(x, axis=None, **kw):
    CALLS[0] += 1
    return _arg_extreme(x, axis, np.argmin)


def argmax(x, axis=None, **kw):
    CALLS[0] += 1
    return _arg_extreme(x, axis, np.argmax)
