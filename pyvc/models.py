"""Models of library leaves that cannot take proxies (DESIGN §2.1 item 5, assumption A2).
Each model is used only when an argument is symbolic; on concrete arguments the real function
runs.  `conformance()` compares every model with the real function on random concrete inputs
and is executed on every run."""
from __future__ import annotations

import math
import random

import numpy as np

from . import terms as tm
from .sym import SReal, is_symbolic, lift

USED = set()


def _sq(v):
    return v.sqrt() if isinstance(v, SReal) else math.sqrt(v)


def norm_model(matrix):
    arr = np.asarray(matrix, dtype=object)
    tot = 0
    for v in arr.flat:
        tot = tot + v * v
    return _sq(tot)


_EXACT = None


def exact_cos_sin(theta):
    """(cos, sin) of a concrete angle as exact constants when it is a multiple of pi/12 that
    has a quadratic-surd value; otherwise symbolic atoms cos(c), sin(c) of the constant."""
    from fractions import Fraction

    global _EXACT
    if _EXACT is None:
        r2, r3 = SReal(tm.sqrt(tm.const(2))), SReal(tm.sqrt(tm.const(3)))
        h = Fraction(1, 2)
        # angle as multiple of pi/12 (0..6) -> (cos, sin)
        _EXACT = {0: (1, 0), 2: (r3 * h, h), 3: (r2 * h, r2 * h), 4: (h, r3 * h), 6: (0, 1)}
    q = Fraction(theta / math.pi).limit_denominator(720)
    if abs(float(q) * math.pi - theta) <= 1e-14 * max(1.0, abs(theta)) and (q * 12).denominator == 1:
        k = int(q * 12) % 24
        # reduce to first quadrant
        quad, r = divmod(k, 6)
        if r in _EXACT or (6 - r) in _EXACT:
            if r in _EXACT:
                c, s = _EXACT[r]
            else:
                s, c = _EXACT[6 - r]
            for _ in range(quad):
                c, s = -s, c
            return c, s
    t = SReal(tm.const(float(theta)))
    return SReal(tm.fn("cos", t.t)), SReal(tm.fn("sin", t.t))


def rodrigues(axis, theta):
    """Rotation matrix about `axis` (normalised here, as the original does) by theta."""
    axis = np.asarray(axis, dtype=object)
    n = norm_model(axis)
    k = axis / n
    if isinstance(theta, SReal):
        c, s = theta.cos(), theta.sin()
    else:
        c, s = exact_cos_sin(float(theta))
    kx, ky, kz = k
    v = 1 - c
    return np.array(
        [
            [c + kx * kx * v, kx * ky * v - kz * s, kx * kz * v + ky * s],
            [ky * kx * v + kz * s, c + ky * ky * v, ky * kz * v - kx * s],
            [kz * kx * v - ky * s, kz * ky * v + kx * s, c + kz * kz * v],
        ],
        dtype=object,
    )


def _concrete(v):
    """Object arrays / constant proxies that hold only concrete numbers → plain floats."""
    if isinstance(v, SReal):
        return v.concrete()
    if isinstance(v, np.ndarray) and v.dtype == object:
        return np.array([_concrete(x) for x in v.flat], dtype=float).reshape(v.shape)
    if isinstance(v, (list, tuple)) and any(isinstance(x, SReal) for x in v):
        return [_concrete(x) for x in v]
    return v


def install_function_models(functions_module):
    real_norm = functions_module.norm
    real_rot = functions_module.rotation_matrix

    def norm(matrix):
        if is_symbolic(matrix):
            USED.add("functions.norm := sqrt(sum of squares)")
            return norm_model(matrix)
        return real_norm(_concrete(matrix))

    def rotation_matrix(axis, theta):
        if is_symbolic(axis) or is_symbolic(theta):
            USED.add("functions.rotation_matrix := Rodrigues(cos, sin)")
            return rodrigues(axis, theta)
        return real_rot(_concrete(axis), _concrete(theta))

    norm.__wrapped_real__ = real_norm
    rotation_matrix.__wrapped_real__ = real_rot
    functions_module.norm = norm
    functions_module.rotation_matrix = rotation_matrix


def _num(v):
    return tm.evalf(v.t, {}) if isinstance(v, SReal) else float(v)


def install_relation_models(rel_module):
    """relations._validate_count eval()s a formatted string; on a symbolic count the same comparison
    is made on the proxy (A2: raises ValueError iff the comparison is false)."""
    real = rel_module._validate_count
    import operator

    ops = [("==", operator.eq), ("!=", operator.ne), (">=", operator.ge), ("<=", operator.le), (">", operator.gt), ("<", operator.lt)]

    def _validate_count(count, condition):
        if not is_symbolic(count):
            if isinstance(count, SReal):
                count = count.concrete()
            return real(count, condition)
        USED.add("relations._validate_count := proxy comparison (same operator/number)")
        for sym_, fn in ops:
            if condition.startswith(sym_):
                number = float(condition[len(sym_):])
                if not bool(fn(count, number)):
                    raise ValueError(f"Count value ({count}) does not met the condition: {condition}")
                return None
        raise ValueError(f"Unknown condition (operator or format): {condition}")

    _validate_count.__wrapped_real__ = real
    rel_module._validate_count = _validate_count


def conformance_repo(seed=0, n=20):
    """The models against the working tree's own functions.norm / functions.rotation_matrix (the
    real, un-modelled callables) on concrete inputs, including non-unit axes.  A mismatch means the
    code no longer has the semantics the model assumes, so every proof that used the model is void."""
    import importlib

    fm = importlib.import_module("classy_blocks.util.functions")
    real_norm = getattr(fm.norm, "__wrapped_real__", fm.norm)
    real_rot = getattr(fm.rotation_matrix, "__wrapped_real__", fm.rotation_matrix)
    rng = random.Random(seed)
    bad = []
    for i in range(n):
        v = [rng.uniform(-5, 5) for _ in range(3)]
        if abs(norm_model(v) - float(real_norm(np.array(v)))) > 1e-9 * (1 + abs(norm_model(v))):
            bad.append(("functions.norm", v))
        ax = [rng.uniform(-3, 3) for _ in range(3)]
        th = rng.uniform(-7, 7)
        mod = np.array([[_num(x) for x in row] for row in rodrigues(ax, th)], dtype=float)
        if np.abs(np.asarray(real_rot(np.array(ax), th), dtype=float) - mod).max() > 1e-8:
            bad.append(("functions.rotation_matrix", ax, th))
    # _validate_count model against the real validator
    rel = importlib.import_module("classy_blocks.grading.relations")
    real_v = getattr(rel._validate_count, "__wrapped_real__", rel._validate_count)
    for cnt in (0, 1, 2, 7.5):
        for cond in (">=1", ">1", "<3", "==2", "!=1", "<=7.5"):
            try:
                real_v(cnt, cond)
                r1 = True
            except ValueError:
                r1 = False
            want = {">=1": cnt >= 1, ">1": cnt > 1, "<3": cnt < 3, "==2": cnt == 2, "!=1": cnt != 1, "<=7.5": cnt <= 7.5}[cond]
            if r1 != want:
                bad.append(("relations._validate_count", cnt, cond))
    return bad[:3]


def conformance(seed=0, n=25):
    """Model vs real library function on random concrete inputs. Returns list of failures."""
    import scipy.linalg

    rng = random.Random(seed)
    bad = []
    for i in range(n):
        v = [rng.uniform(-5, 5) for _ in range(3)]
        if abs(norm_model(v) - float(scipy.linalg.norm(v))) > 1e-12 * (1 + abs(norm_model(v))):
            bad.append(("norm", v))
        ax = [rng.uniform(-2, 2) for _ in range(3)]
        th = rng.uniform(-7, 7) if i % 3 else rng.randint(-12, 24) * math.pi / 12
        real = scipy.linalg.expm(np.cross(np.eye(3), np.asarray(ax) / scipy.linalg.norm(ax) * th))
        mod = np.array([[_num(v) for v in row] for row in rodrigues(ax, th)], dtype=float)
        if np.abs(real - mod).max() > 1e-9:
            bad.append(("rotation_matrix", ax, th))
    return bad
