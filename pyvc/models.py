"""Models of library leaves that cannot take proxies (DESIGN §2.1 item 5, assumption A2).
Each model is used only when an argument is symbolic; on concrete arguments the real function
runs.  `conformance()` compares every model with the real function on random concrete inputs
and is executed on every run."""
from __future__ import annotations

import math
import random

import numpy as np

from . import terms as tm
from .sym import SReal, is_symbolic, lift

USED = set()


def _sq(v):
    return v.sqrt() if isinstance(v, SReal) else math.sqrt(v)


def norm_model(matrix):
    arr = np.asarray(matrix, dtype=object)
    tot = 0
    for v in arr.flat:
        tot = tot + v * v
    return _sq(tot)


def rodrigues(axis, theta):
    """Rotation matrix about `axis` (normalised here, as the original does) by theta."""
    axis = np.asarray(axis, dtype=object)
    n = norm_model(axis)
    k = axis / n
    if isinstance(theta, SReal):
        c, s = theta.cos(), theta.sin()
    else:
        c, s = math.cos(theta), math.sin(theta)
    kx, ky, kz = k
    v = 1 - c
    return np.array(
        [
            [c + kx * kx * v, kx * ky * v - kz * s, kx * kz * v + ky * s],
            [ky * kx * v + kz * s, c + ky * ky * v, ky * kz * v - kx * s],
            [kz * kx * v - ky * s, kz * ky * v + kx * s, c + kz * kz * v],
        ],
        dtype=object,
    )


def install_function_models(functions_module):
    real_norm = functions_module.norm
    real_rot = functions_module.rotation_matrix

    def norm(matrix):
        if is_symbolic(matrix) or (isinstance(matrix, np.ndarray) and matrix.dtype == object):
            USED.add("functions.norm := sqrt(sum of squares)")
            r = norm_model(matrix)
            if isinstance(r, SReal) and r.concrete() is not None:
                return r.concrete()
            return r
        return real_norm(matrix)

    def rotation_matrix(axis, theta):
        if is_symbolic(axis) or is_symbolic(theta) or (isinstance(axis, np.ndarray) and axis.dtype == object):
            USED.add("functions.rotation_matrix := Rodrigues(cos, sin)")
            return rodrigues(axis, theta)
        return real_rot(axis, theta)

    norm.__wrapped_real__ = real_norm
    rotation_matrix.__wrapped_real__ = real_rot
    functions_module.norm = norm
    functions_module.rotation_matrix = rotation_matrix


def conformance(seed=0, n=25):
    """Model vs real library function on random concrete inputs. Returns list of failures."""
    import scipy.linalg

    rng = random.Random(seed)
    bad = []
    for _ in range(n):
        v = [rng.uniform(-5, 5) for _ in range(3)]
        if abs(norm_model(v) - float(scipy.linalg.norm(v))) > 1e-12 * (1 + abs(norm_model(v))):
            bad.append(("norm", v))
        ax = [rng.uniform(-2, 2) for _ in range(3)]
        th = rng.uniform(-7, 7)
        real = scipy.linalg.expm(np.cross(np.eye(3), np.asarray(ax) / scipy.linalg.norm(ax) * th))
        mod = rodrigues(ax, th).astype(float)
        if np.abs(real - mod).max() > 1e-9:
            bad.append(("rotation_matrix", ax, th))
    return bad
