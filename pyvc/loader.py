"""Loads classy_blocks from the working tree ($VERIF_REPO/src) on every run.

Two modes:
  plain         the package exactly as it is (used by the run-time monitor, replay and the
                bounded tier);
  instrumented  every module of the package is read from the working tree, passed through
                the AST pass below, compiled and executed in place of the plain import
                (DESIGN §2.1).  The pass only rewrites *calls* of a fixed list of builtins /
                library functions to shims that are the identity on concrete values.

What the extraction changes is returned by `extraction_report()` and copied into evidence.
"""
from __future__ import annotations

import ast
import hashlib
import importlib.abc
import importlib.machinery
import importlib.util
import os
import sys
from typing import Dict, List

PKG = "classy_blocks"

# builtin name -> shim attribute of pyvc.shims
BUILTIN_SHIMS = {
    "int": "int_",
    "float": "float_",
    "round": "round_",
    "isinstance": "isinstance_",
    "set": "set_",
    "range": "range_",
    "max": "max_",
    "min": "min_",
}
# (module alias, attribute) -> shim
ATTR_SHIMS = {
    ("math", "isclose"): "isclose",
    ("np", "isnan"): "isnan",
    ("np", "clip"): "clip",
    ("np", "arctan2"): "arctan2",
    ("np", "cross"): "cross",
    ("np", "linspace"): "linspace",
    ("np", "allclose"): "allclose",
    ("np", "isclose"): "np_isclose",
    ("np", "argmin"): "argmin",
    ("np", "argmax"): "argmax",
}
for _u in ("sqrt", "sin", "cos", "tan", "arccos", "arcsin", "arctan", "log", "log10", "exp"):
    ATTR_SHIMS[("np", _u)] = "u_" + _u
_LINALG = {("np", "linalg", "norm"): "np_linalg_norm"}

_REPORT: Dict[str, dict] = {}


def repo_root() -> str:
    return os.environ.get("VERIF_REPO", "/repo")


def src_root() -> str:
    return os.path.join(repo_root(), "src")


class _Pass(ast.NodeTransformer):
    def __init__(self):
        self.rewrites: List[str] = []

    def visit_Call(self, node: ast.Call):
        self.generic_visit(node)
        f = node.func
        if isinstance(f, ast.Name) and f.id in BUILTIN_SHIMS:
            self.rewrites.append(f"{f.id}@{node.lineno}")
            node.func = ast.copy_location(
                ast.Attribute(value=ast.Name(id="__pyvc__", ctx=ast.Load()), attr=BUILTIN_SHIMS[f.id], ctx=ast.Load()),
                f,
            )
        elif isinstance(f, ast.Attribute) and isinstance(f.value, ast.Name) and (f.value.id, f.attr) in ATTR_SHIMS:
            self.rewrites.append(f"{f.value.id}.{f.attr}@{node.lineno}")
            node.func = ast.copy_location(
                ast.Attribute(
                    value=ast.Name(id="__pyvc__", ctx=ast.Load()), attr=ATTR_SHIMS[(f.value.id, f.attr)], ctx=ast.Load()
                ),
                f,
            )
        elif (
            isinstance(f, ast.Attribute)
            and isinstance(f.value, ast.Attribute)
            and isinstance(f.value.value, ast.Name)
            and (f.value.value.id, f.value.attr, f.attr) in _LINALG
        ):
            self.rewrites.append(f"np.linalg.norm@{node.lineno}")
            node.func = ast.copy_location(
                ast.Attribute(value=ast.Name(id="__pyvc__", ctx=ast.Load()), attr="np_linalg_norm", ctx=ast.Load()), f
            )
        return node

    def visit_Set(self, node: ast.Set):
        self.generic_visit(node)
        self.rewrites.append(f"set-display@{node.lineno}")
        return ast.copy_location(
            ast.Call(
                func=ast.Attribute(value=ast.Name(id="__pyvc__", ctx=ast.Load()), attr="set_", ctx=ast.Load()),
                args=[ast.List(elts=node.elts, ctx=ast.Load())],
                keywords=[],
            ),
            node,
        )


class _Loader(importlib.abc.Loader):
    def __init__(self, fullname, path, is_pkg):
        self.fullname, self.path, self.is_pkg = fullname, path, is_pkg

    def create_module(self, spec):
        return None

    def exec_module(self, module):
        with open(self.path, "r", encoding="utf-8") as fh:
            source = fh.read()
        tree = ast.parse(source, self.path)
        p = _Pass()
        tree = p.visit(tree)
        ast.fix_missing_locations(tree)
        from . import shims

        module.__dict__["__pyvc__"] = shims
        module.__file__ = self.path
        code = compile(tree, self.path, "exec")
        exec(code, module.__dict__)
        _REPORT[self.fullname] = {
            "file": os.path.relpath(self.path, repo_root()),
            "sha1": hashlib.sha1(source.encode()).hexdigest(),
            "rewrites": len(p.rewrites),
        }
        _post_import(self.fullname, module)


class _Finder(importlib.abc.MetaPathFinder):
    def find_spec(self, fullname, path=None, target=None):
        if fullname != PKG and not fullname.startswith(PKG + "."):
            return None
        rel = fullname.split(".")
        base = os.path.join(src_root(), *rel)
        if os.path.isdir(base) and os.path.exists(os.path.join(base, "__init__.py")):
            p = os.path.join(base, "__init__.py")
            spec = importlib.machinery.ModuleSpec(fullname, _Loader(fullname, p, True), origin=p, is_package=True)
            spec.submodule_search_locations = [base]
            return spec
        if os.path.exists(base + ".py"):
            p = base + ".py"
            return importlib.machinery.ModuleSpec(fullname, _Loader(fullname, p, False), origin=p)
        return None


def _post_import(fullname: str, module):
    """Mechanical rebindings that make the package runnable on proxies (DESIGN §2.1 1,5)."""
    from . import models

    if fullname == "classy_blocks.util.constants":
        module.DTYPE = object  # A1: floats are reals
    elif fullname == "classy_blocks.util.functions":
        models.install_function_models(module)
    elif fullname == "classy_blocks.grading.relations":
        models.install_relation_models(module)


_MODE = [None]


def install(instrument: bool):
    """Make `import classy_blocks` resolve to the working tree.  Call once per process,
    before the package is imported."""
    if _MODE[0] is not None:
        if _MODE[0] != instrument:
            raise RuntimeError("loader already installed in the other mode")
        return
    for name in list(sys.modules):
        if name == PKG or name.startswith(PKG + "."):
            raise RuntimeError("classy_blocks imported before the loader was installed")
    _MODE[0] = instrument
    if instrument:
        sys.meta_path.insert(0, _Finder())
    else:
        # plain import from the working tree (not from any installed copy)
        sys.path.insert(0, src_root())


def mode():
    return _MODE[0]


def extraction_report() -> dict:
    return {
        "mode": "instrumented" if _MODE[0] else "plain",
        "modules": len(_REPORT),
        "call_rewrites": sum(m["rewrites"] for m in _REPORT.values()),
        "shimmed_builtins": sorted(BUILTIN_SHIMS),
        "shimmed_library_calls": ["math.isclose", "np.isnan", "np.clip", "np.arctan2", "np.cross", "np.linspace", "np.allclose", "np.isclose", "np.argmin", "np.argmax", "np.linalg.norm", "np.<unary ufunc> (sqrt sin cos tan arccos arcsin arctan log log10 exp)"],
        "rebindings": ["util.constants.DTYPE := object", "util.functions.norm := sqrt-of-squares model (symbolic args only)",
                       "util.functions.rotation_matrix := Rodrigues model (symbolic args only)",
                       "grading.relations._validate_count := comparison on the proxy (symbolic count only)"],
    }


def source_of(obj) -> dict:
    """File, line span and sha1 of the source text of a function/class of the working tree."""
    import inspect

    try:
        obj = inspect.unwrap(obj)
        if isinstance(obj, property):
            obj = obj.fget
        lines, start = inspect.getsourcelines(obj)
        fn = inspect.getsourcefile(obj)
        text = "".join(lines)
        return {
            "file": os.path.relpath(fn, repo_root()),
            "lines": [start, start + len(lines) - 1],
            "sha1": hashlib.sha1(text.encode()).hexdigest(),
        }
    except Exception as e:  # pragma: no cover
        return {"error": str(e)}
