"""Ideal-membership back end (DESIGN §2.2 item 3).

`identity(pc, a, b)` proves a == b over the reals wherever the denominators that occur are
non-zero, by computing a − b in the field of rational functions over
  vars ∪ atoms     (atoms: sqrt(·), sin(·), cos(·), other function applications)
and reducing the numerator with the defining relations of the atoms
  sqrt(r)² = r,   sin(x)² = 1 − cos(x)²,   tan x = sin x / cos x
newest atom first (the relations are triangular, so this is reduction by a Gröbner basis for
the lex order "newest atom first").  A zero remainder is a proof; anything else is "don't
know" (never a refutation).
"""
from __future__ import annotations

import signal
import time
from typing import Dict, List, Sequence, Tuple

from sympy import QQ
from sympy.polys.fields import field as _field
from sympy.polys.orderings import lex

from . import terms as tm
from .terms import T, Unsupported


def _collect(roots: Sequence[T]):
    sub = sorted(tm.subterms(roots), key=lambda x: x.id)
    vars_, atoms = [], []
    for x in sub:
        if x.op == "var":
            vars_.append(x)
        elif x.op == "sqrt":
            atoms.append(("sqrt", x))
        elif x.op == "fn":
            name = x.args[0]
            if name in ("sin", "cos", "tan"):
                atoms.append(("trig", x))
            else:
                atoms.append(("opaque", x))
        elif x.op in ("ite", "trunc", "floordiv", "mod", "lt", "le", "eq", "and", "or", "not", "iff"):
            raise Unsupported(f"poly backend: {x.op} is not a rational operation")
    return sub, vars_, atoms


def identity(pc: Sequence[T], a: T, b: T, timeout_s: float = 20.0) -> Tuple[bool, str]:
    from .timer import Timeout, deadline, expired_here

    t0 = time.time()
    try:
        with deadline(max(0.5, timeout_s)):
            return _identity(pc, a, b)
    except Timeout:
        if expired_here(t0, max(0.5, timeout_s)):
            return False, "poly: timeout"
        raise


def _identity(pc, a: T, b: T):
    goal = tm.sub(a, b)
    # equality hypotheses from the path condition that define a variable-free relation are
    # used by substitution only when they have the form  var == term  (kept simple on purpose)
    sub, vars_, atoms = _collect([goal])
    # generator names: atoms newest first (largest in lex), then variables
    names: List[str] = []
    key_of: Dict[int, str] = {}
    trig_args: Dict[int, Tuple[str, str]] = {}
    atom_list = []
    for kind, x in sorted(atoms, key=lambda p: -p[1].id):
        if kind == "trig":
            arg = x.args[1]
            if arg.id not in trig_args:
                s, c = f"S{arg.id}", f"C{arg.id}"
                trig_args[arg.id] = (s, c)
                names += [s, c]
                atom_list.append(("trig", arg, s, c))
        else:
            n = f"A{x.id}"
            key_of[x.id] = n
            names.append(n)
            atom_list.append((kind, x, n, None))
    for v in vars_:
        n = f"v{v.id}"
        key_of[v.id] = n
    names += [key_of[v.id] for v in sorted(vars_, key=lambda v: -v.id)]
    if not names:
        names = ["dummy"]
    F = _field(names, QQ, lex)
    K = F[0]
    gens = dict(zip(names, F[1:]))
    val: Dict[int, object] = {}

    def conv(x: T):
        g = lambda y: val[y.id]
        op = x.op
        if op == "const":
            v = tm.cval(x)
            return K(QQ(v.numerator, v.denominator))
        if op == "var":
            return gens[key_of[x.id]]
        if op == "toreal":
            return g(x.args[0])
        if op == "add":
            r = K(0)
            for y in x.args:
                r = r + g(y)
            return r
        if op == "mul":
            r = K(1)
            for y in x.args:
                r = r * g(y)
            return r
        if op == "neg":
            return -g(x.args[0])
        if op == "div":
            d = g(x.args[1])
            if d == 0:
                raise Unsupported("poly backend: division by an identically zero term")
            return g(x.args[0]) / d
        if op == "powi":
            return g(x.args[0]) ** x.args[1]
        if op == "sqrt":
            return gens[key_of[x.id]]
        if op == "fn":
            name = x.args[0]
            if name in ("sin", "cos", "tan"):
                s, c = trig_args[x.args[1].id]
                if name == "sin":
                    return gens[s]
                if name == "cos":
                    return gens[c]
                return gens[s] / gens[c]
            return gens[key_of[x.id]]
        raise Unsupported(f"poly backend: {op}")

    for x in sub:
        val[x.id] = conv(x)
    g = val[goal.id]
    if g == 0:
        return True, "rational normal form is 0"
    num = g.numer  # PolyElement in the associated ring
    R = num.ring
    rgens = dict(zip(names, R.gens))

    # identical radicands → identical atoms (oldest atom of each class is kept)
    seen_rad = {}
    for kind, x, n, _ in reversed(atom_list):
        if kind == "sqrt":
            rad = val[x.args[0].id]
            k = (rad.numer, rad.denom)
            if k in seen_rad:
                num = num.compose(rgens[n], rgens[seen_rad[k]])
            else:
                seen_rad[k] = n

    def reduce_power(num, gen_name, repl_num, repl_den):
        """Replace gen² by repl_num/repl_den in the polynomial num; returns a polynomial
        proportional to the result (multiplied by a power of repl_den)."""
        x = rgens[gen_name]
        i = R.gens.index(x)
        by_deg: Dict[int, object] = {}
        for mon, coeff in num.terms():
            k = mon[i]
            rest = list(mon)
            rest[i] = 0
            term = R({tuple(rest): coeff})
            by_deg[k] = by_deg.get(k, R(0)) + term
        if not by_deg or max(by_deg) < 2:
            return num
        kmax = max(by_deg) // 2
        out = R(0)
        for k, c in by_deg.items():
            h, odd = divmod(k, 2)
            t = c * repl_num**h * repl_den ** (kmax - h)
            if odd:
                t = t * x
            out = out + t
        return out

    for kind, x, n, c in atom_list:  # newest first
        if num == 0:
            break
        if kind == "sqrt":
            rad = val[x.args[0].id]
            num = reduce_power(num, n, R(rad.numer), R(rad.denom))
        elif kind == "trig":
            s, cname = n, c
            num = reduce_power(num, s, R(1) - rgens[cname] ** 2, R(1))
    if num == 0:
        return True, "numerator reduces to 0 modulo atom relations"
    return False, f"remainder with {len(num.terms())} terms"
