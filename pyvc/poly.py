"""Ideal-membership back end (DESIGN §2.2 item 3).

`identity(pc, a, b)` proves a == b over the reals wherever the denominators that occur are
non-zero, by computing a − b in the field of rational functions over
  vars ∪ atoms     (atoms: sqrt(·), sin(·), cos(·), other function applications)
and reducing the numerator with the defining relations of the atoms
  sqrt(r)² = r,   sin(x)² = 1 − cos(x)²,   tan x = sin x / cos x
newest atom first (the relations are triangular, so this is reduction by a Gröbner basis for
the lex order "newest atom first").  A zero remainder is a proof; anything else is "don't
know" (never a refutation).
"""
from __future__ import annotations

import signal
import time
from typing import Dict, List, Sequence, Tuple

from sympy import QQ
from sympy.polys.fields import field as _field
from sympy.polys.orderings import lex

from . import terms as tm
from .terms import T, Unsupported


def _collect(roots: Sequence[T]):
    sub = sorted(tm.subterms(roots), key=lambda x: x.id)
    vars_, atoms = [], []
    for x in sub:
        if x.op == "var":
            vars_.append(x)
        elif x.op == "sqrt":
            atoms.append(("sqrt", x))
        elif x.op == "fn":
            name = x.args[0]
            if name in ("sin", "cos", "tan"):
                atoms.append(("trig", x))
            else:
                atoms.append(("opaque", x))
        elif x.op in ("ite", "trunc", "floordiv", "mod", "lt", "le", "eq", "and", "or", "not", "iff"):
            raise Unsupported(f"poly backend: {x.op} is not a rational operation")
    return sub, vars_, atoms


def identity(pc: Sequence[T], a: T, b: T, timeout_s: float = 20.0) -> Tuple[bool, str]:
    from .timer import Timeout, deadline, expired_here

    t0 = time.time()
    try:
        with deadline(max(0.5, timeout_s)):
            ok, why = _identity(pc, a, b, split=False)
            if ok:
                return ok, why
            # second attempt with sqrt(u^2 w) = |u| sqrt(w) extraction (factorisation + sign queries)
            return _identity(pc, a, b, split=True)
    except Timeout:
        if expired_here(t0, max(0.5, timeout_s)):
            return False, "poly: timeout"
        raise


def _size(t: T) -> int:
    return len(tm.subterms([t]))


def hyp_mapping(pc):
    mapping = {}
    for c in pc:
        if c.op != "eq" or c.args[0].sort == "B":
            continue
        x, y = c.args
        sx, sy = _size(x), _size(y)
        if sy > sx or (sy == sx and y.id > x.id):
            x, y = y, x
        if tm.is_const(x) or x.id in mapping:
            continue
        if any(z is x for z in tm.subterms([y])):
            continue
        mapping[x.id] = y
    return mapping


def rewrite_vc(pc, goal: T):
    """Rewrite the goal and the other hypotheses with the equalities of the path condition
    (larger side -> smaller side).  Sound: only uses equalities that are themselves in pc."""
    mapping = hyp_mapping(pc)
    if not mapping:
        return tuple(pc), goal
    keep = []
    for c in pc:
        if c.op == "eq" and c.args[0].sort != "B" and (c.args[0].id in mapping or c.args[1].id in mapping):
            # a defining equality: rewrite only its smaller side's inside
            keep.append(c)
        else:
            keep.append(c)
    new_pc = []
    for c in keep:
        is_rule = c.op == "eq" and c.args[0].sort != "B" and (c.args[0].id in mapping or c.args[1].id in mapping)
        if is_rule:
            # rewrite inside both sides but not the rule's own left-hand side as a whole
            big = c.args[0] if c.args[0].id in mapping else c.args[1]
            small = c.args[1] if big is c.args[0] else c.args[0]
            m2 = {k: v for k, v in mapping.items() if k != big.id}
            nb, ns = tm.substitute([big, small], m2) if m2 else (big, small)
            new_pc.append(tm.eq(nb, ns))
        else:
            new_pc.append(tm.substitute([c], mapping)[0])
    g = goal
    for _ in range(4):
        g2 = tm.substitute([g], mapping)[0]
        if g2 is g:
            break
        g = g2
    return tuple(x for x in new_pc if x is not tm.TRUE), g


def _hyp_substitution(pc, goal: T):
    """Equality hypotheses  lhs == rhs  of the path condition (lemmas, assumptions) are used as
    rewrite rules: an atom (variable / sqrt / function application) is replaced by the other side;
    between two compound terms the larger one is replaced by the smaller one."""
    mapping = {}
    for c in pc:
        if c.op != "eq" or c.args[0].sort == "B":
            continue
        x, y = c.args
        sx, sy = _size(x), _size(y)
        if sy > sx or (sy == sx and y.id > x.id):
            x, y = y, x      # the larger (or, at equal size, the newer) side is rewritten to the other
        if tm.is_const(x) or x.id in mapping:
            continue
        if any(z is x for z in tm.subterms([y])):
            continue
        mapping[x.id] = y
    if not mapping:
        return goal, 0
    g = goal
    for _ in range(4):  # rules may feed each other
        g2 = tm.substitute([g], mapping)[0]
        if g2 is g:
            break
        g = g2
    return g, len(mapping)


def _identity(pc, a: T, b: T, split: bool = True):
    goal = tm.sub(a, b)
    goal, n_hyp = _hyp_substitution(pc, goal)
    # equality hypotheses from the path condition that define a variable-free relation are
    # used by substitution only when they have the form  var == term  (kept simple on purpose)
    sub, vars_, atoms = _collect([goal])
    # generator names: atoms newest first (largest in lex), then variables
    names: List[str] = []
    key_of: Dict[int, str] = {}
    trig_args: Dict[int, Tuple[str, str]] = {}
    atom_list = []
    for kind, x in sorted(atoms, key=lambda p: -p[1].id):
        if kind == "trig":
            arg = x.args[1]
            if arg.id not in trig_args:
                s, c = f"S{arg.id}", f"C{arg.id}"
                trig_args[arg.id] = (s, c)
                names += [s, c]
                atom_list.append(("trig", arg, s, c))
        else:
            n = f"A{x.id}"
            key_of[x.id] = n
            names.append(n)
            atom_list.append((kind, x, n, None))
    for v in vars_:
        n = f"v{v.id}"
        key_of[v.id] = n
    spare = [f"X{i}" for i in range(6)]
    spare_used: List[str] = []
    names = list(spare) + names
    names += [key_of[v.id] for v in sorted(vars_, key=lambda v: -v.id)]
    term_of: Dict[str, T] = {key_of[v.id]: v for v in vars_}
    for kind, x, n, c in atom_list:
        if kind == "trig":
            term_of[n] = tm.fn("sin", x)
            term_of[c] = tm.fn("cos", x)
        else:
            term_of[n] = x
    F = _field(names, QQ, lex)
    K = F[0]
    gens = dict(zip(names, F[1:]))
    val: Dict[int, object] = {}

    def conv(x: T):
        g = lambda y: val[y.id]
        op = x.op
        if op == "const":
            v = tm.cval(x)
            return K(QQ(v.numerator, v.denominator))
        if op == "var":
            return gens[key_of[x.id]]
        if op == "toreal":
            return g(x.args[0])
        if op == "add":
            r = K(0)
            for y in x.args:
                r = r + g(y)
            return r
        if op == "mul":
            r = K(1)
            for y in x.args:
                r = r * g(y)
            return r
        if op == "neg":
            return -g(x.args[0])
        if op == "div":
            d = g(x.args[1])
            if d == 0:
                raise Unsupported("poly backend: division by an identically zero term")
            return g(x.args[0]) / d
        if op == "powi":
            return g(x.args[0]) ** x.args[1]
        if op == "sqrt":
            return gens[key_of[x.id]]
        if op == "fn":
            name = x.args[0]
            if name in ("sin", "cos", "tan"):
                s, c = trig_args[x.args[1].id]
                if name == "sin":
                    return gens[s]
                if name == "cos":
                    return gens[c]
                return gens[s] / gens[c]
            return gens[key_of[x.id]]
        raise Unsupported(f"poly backend: {op}")

    for x in sub:
        val[x.id] = conv(x)
    g = val[goal.id]
    if g == 0:
        return True, "rational normal form is 0"
    R = g.numer.ring
    rgens = dict(zip(names, R.gens))
    gen_index = {n: i for i, n in enumerate(names)}

    def split_even_odd(pol, gen_name):
        """pol = E(g²) + g·O(g²): returns dicts power-of-g² -> coefficient polynomial (g-free)."""
        i = gen_index[gen_name]
        even: Dict[int, object] = {}
        odd: Dict[int, object] = {}
        for mon, coeff in pol.terms():
            k = mon[i]
            rest = list(mon)
            rest[i] = 0
            term = R({tuple(rest): coeff})
            h, o = divmod(k, 2)
            d = odd if o else even
            d[h] = d.get(h, R(0)) + term
        return even, odd

    def eval_in_r(parts, r):
        """Σ coeff_h · r^h as a field element (r a field element)."""
        out = K(0)
        for h, c in parts.items():
            out = out + K(c) * r**h if h else out + K(c)
        return out

    # ---- pass 1 (oldest atom first): reduced radicands, constant atoms, duplicate atoms
    red: Dict[str, object] = {}       # atom generator -> its square as a field element over older generators
    subst: Dict[str, object] = {}     # atom generator -> field element it is replaced by
    order_old_first = list(reversed(atom_list))

    def apply_subst(fe):
        if not subst:
            return fe
        pairs = [(rgens[n], v) for n, v in subst.items()]
        nn, dd = fe.numer, fe.denom
        used = [n for n in subst if any(m[gen_index[n]] for m in nn.monoms()) or any(m[gen_index[n]] for m in dd.monoms())]
        if not used:
            return fe
        # substitute via evaluation in the field: rebuild numer/denom with the generator mapped
        def ev(pol):
            out = K(0)
            for mon, coeff in pol.terms():
                t = K(coeff)
                for n, i in gen_index.items():
                    e = mon[i]
                    if e:
                        t = t * (subst[n] if n in subst else F[1 + i]) ** e
                out = out + t
            return out
        return ev(nn) / ev(dd)

    def normalise(fe, upto=None):
        """Canonical form of a field element modulo the relations of the atoms processed so far
        (newest first): numerator linear in every atom, denominator atom-free."""
        fe = apply_subst(fe)
        for kind, x, n, c in atom_list:  # newest first
            gname = n
            if gname not in red:
                continue
            r = red[gname]
            i = gen_index[gname]
            if not any(m[i] for m in fe.numer.monoms()) and not any(m[i] for m in fe.denom.monoms()):
                continue
            ne, no = split_even_odd(fe.numer, gname)
            de, do = split_even_odd(fe.denom, gname)
            Ne, No, De, Do = eval_in_r(ne, r), eval_in_r(no, r), eval_in_r(de, r), eval_in_r(do, r)
            gg = F[1 + i]
            den = De * De - r * Do * Do
            if den == 0:
                raise Unsupported("poly backend: zero denominator while rationalising")
            fe = ((Ne * De - r * No * Do) + gg * (No * De - Ne * Do)) / den
        return fe

    seen: Dict[object, str] = {}
    for kind, x, n, c in order_old_first:
        if kind == "sqrt":
            rad = normalise(val[x.args[0].id])
            if not rad.numer.is_ground or not rad.denom.is_ground:
                key = (rad.numer, rad.denom)
                if key in seen:
                    subst[n] = gens[seen[key]]
                else:
                    # sqrt(u² · w) = |u| · sqrt(w) when the sign of u follows from the path condition
                    done_split = False
                    # (a) a multiple of an older atom's radicand by a small square factor (scaled copies)
                    for okey, oname in (list(seen.items()) if split else []):
                        if oname not in red or len(rad.numer.terms()) > 4000:
                            continue
                        try:
                            quot = rad / red[oname]
                        except ZeroDivisionError:
                            continue
                        if len(quot.numer.terms()) <= 3 and len(quot.denom.terms()) <= 3:
                            spq = _square_split(quot, K)
                            if spq is not None and spq[1] == 1:
                                sgn = _sign_of(spq[0], pc, names, term_of)
                                if sgn is not None:
                                    subst[n] = spq[0] * gens[oname] * sgn
                                    done_split = True
                                    break
                    sp = _square_split(rad, K) if (split and not done_split) else None
                    if sp is not None:
                        outer, inner = sp
                        sgn = _sign_of(outer, pc, names, term_of)
                        if sgn is not None:
                            ikey = (inner.numer, inner.denom)
                            if inner.numer.is_ground and inner.denom.is_ground:
                                base = _const_sqrt(inner, K)
                            elif ikey in seen:
                                base = gens[seen[ikey]]
                            elif spare:
                                sname = spare.pop()
                                seen[ikey] = sname
                                red[sname] = inner
                                spare_used.append(sname)
                                base = gens[sname]
                            else:
                                base = None
                            if base is not None:
                                subst[n] = outer * base * sgn
                                done_split = True
                    if not done_split:
                        seen[key] = n
                        red[n] = rad
            else:
                q = QQ(rad.numer.LC if rad.numer != 0 else 0) / QQ(rad.denom.LC)
                num_, den_ = int(q.numerator), int(q.denominator)
                import math as _m

                if num_ >= 0 and _m.isqrt(num_) ** 2 == num_ and _m.isqrt(den_) ** 2 == den_:
                    subst[n] = K(QQ(_m.isqrt(num_), _m.isqrt(den_)))
                else:
                    red[n] = rad
        elif kind == "trig":
            red[n] = K(1) - gens[c] ** 2   # S² = 1 − C²

    # ---- pass 2: the goal.  Only its numerator matters; reduce it without field arithmetic.
    num = g.numer
    for n, v in subst.items():
        if any(m[gen_index[n]] for m in num.monoms()):
            num = num.compose(rgens[n], R(v.numer) if v.denom == 1 else None) if v.denom == 1 else _compose_frac(num, rgens[n], v, R, gen_index[n])

    def reduce_power(num, gen_name, repl_num, repl_den):
        i = gen_index[gen_name]
        x = rgens[gen_name]
        by_deg: Dict[int, object] = {}
        for mon, coeff in num.terms():
            k = mon[i]
            rest = list(mon)
            rest[i] = 0
            by_deg[k] = by_deg.get(k, R(0)) + R({tuple(rest): coeff})
        if not by_deg or max(by_deg) < 2:
            return num
        kmax = max(by_deg) // 2
        out = R(0)
        for k, cf in by_deg.items():
            h, odd = divmod(k, 2)
            t = cf * repl_num**h * repl_den ** (kmax - h)
            if odd:
                t = t * x
            out = out + t
        return out

    for kind, x, n, c in atom_list:  # newest first
        if num == 0:
            break
        if n in red:
            r = red[n]
            num = reduce_power(num, n, R(r.numer), R(r.denom))
    for sname in spare_used:
        if num != 0:
            r = red[sname]
            num = reduce_power(num, sname, R(r.numer), R(r.denom))
            # the inner radicand may mention older atoms again
            for kind, x, n, c in atom_list:
                if n in red and num != 0:
                    rr = red[n]
                    num = reduce_power(num, n, R(rr.numer), R(rr.denom))
    if num == 0:
        return True, "numerator reduces to 0 modulo atom relations"
    return False, f"remainder with {len(num.terms())} terms"


def _compose_frac(num, gen, value, R, i):
    """Substitute gen := value (a field element p/q) in the polynomial num, up to a power of q."""
    p, q = R(value.numer), R(value.denom)
    by_deg = {}
    for mon, coeff in num.terms():
        k = mon[i]
        rest = list(mon)
        rest[i] = 0
        by_deg[k] = by_deg.get(k, R(0)) + R({tuple(rest): coeff})
    kmax = max(by_deg)
    out = R(0)
    for k, cf in by_deg.items():
        out = out + cf * p**k * q ** (kmax - k)
    return out


def _square_split(rad, K):
    """rad = outer² · inner with outer non-trivial, or None."""
    p, q = rad.numer, rad.denom
    if len(p.terms()) > 600 or len(q.terms()) > 600:
        return None
    try:
        cp, fp = p.factor_list()
        cq, fq = q.factor_list()
    except Exception:  # noqa: BLE001
        return None
    outer = K(1)
    inner = K(cp) / K(cq)
    nontrivial = False
    for fac, e in fp:
        if e >= 2:
            outer = outer * K(fac) ** (e // 2)
            nontrivial = True
        if e % 2:
            inner = inner * K(fac)
    for fac, e in fq:
        if e >= 2:
            outer = outer / K(fac) ** (e // 2)
            nontrivial = True
        if e % 2:
            inner = inner / K(fac)
    if not nontrivial:
        return None
    return outer, inner


def _const_sqrt(fe, K):
    import math as _m

    q = QQ(fe.numer.LC if fe.numer != 0 else 0) / QQ(fe.denom.LC)
    a, b = int(q.numerator), int(q.denominator)
    if a >= 0 and _m.isqrt(a) ** 2 == a and _m.isqrt(b) ** 2 == b:
        return K(QQ(_m.isqrt(a), _m.isqrt(b)))
    return None


def _poly_to_term(pol, names, term_of) -> T:
    out = tm.ZERO
    for mon, coeff in pol.terms():
        t = tm.const(__import__("fractions").Fraction(int(coeff.numerator), int(coeff.denominator)))
        for n, e in zip(names, mon):
            if e:
                if n not in term_of:
                    raise Unsupported("no term for generator " + n)
                t = tm.mul(t, tm.powi(term_of[n], int(e)))
        out = tm.add(out, t)
    return out


def _sign_of(fe, pc, names, term_of):
    """+1 / -1 if the path condition implies fe >= 0 / fe <= 0 (decided by SMT), else None."""
    from . import solve

    try:
        t = tm.div(_poly_to_term(fe.numer, names, term_of), _poly_to_term(fe.denom, names, term_of))
    except Unsupported:
        return None
    for sgn, goal in ((1, tm.le(tm.ZERO, t)), (-1, tm.le(t, tm.ZERO))):
        try:
            ab, facts = solve.abstract(list(pc) + [goal], limit=6)
            r, _, _ = solve.z3_check(ab[:-1] + facts, ab[-1], 3000, want_model=False)
            if r != "unsat":
                r, _, _ = solve.z3_check(list(pc), goal, 3000, want_model=False)
        except Unsupported:
            return None
        if r == "unsat":
            return sgn
    return None
