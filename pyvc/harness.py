"""Proof harnesses: a contract instantiated on the real function (DESIGN §2.3, §2.5).

A proof is a Python function `h(ctx)` that
  1. draws its free inputs from `ctx` (ctx.real / ctx.vec / ctx.int ...),
  2. states the precondition with ctx.assume(...),
  3. calls the REAL function(s) of classy_blocks,
  4. states the postcondition / frame with ctx.prove(name, cond).
The same body has two uses with one meaning:
  symbolic  inputs are proxies; every ctx.prove becomes a verification condition
            path-condition ⇒ cond, discharged by the back ends for *all* inputs;
  concrete  inputs are floats (random for the bounded tier, given for a replay);
            ctx.prove evaluates the clause – the run-time contract monitor.
"""
from __future__ import annotations

import hashlib
import math
import random
import signal
import time
import traceback
from typing import Any, Callable, Dict, List, Optional, Sequence

import numpy as np

from . import poly, solve, sym
from . import terms as tm
from .sym import And, Implies, Not, Or, SBool, SReal, Unsupported

REGISTRY: Dict[str, List["Proof"]] = {}


class Proof:
    def __init__(self, prop, name, fn, cases, functions, level, bounded, samples, timeout, uses, note, max_paths,
                 scale, inlined, thorough_only=False):
        self.thorough_only = thorough_only
        self.prop = prop
        self.name = name
        self.fn = fn
        self.cases = list(cases) if cases is not None else [None]
        self.functions = functions or []
        self.level = level  # "P" proved for all inputs, "S" shape-bounded
        self.bounded = bounded
        self.samples = samples
        self.timeout = timeout
        self.uses = uses or []
        self.note = note
        self.max_paths = max_paths
        self.scale = scale
        self.inlined = inlined or []

    def oid(self, clause, case):
        c = "" if case is None else f"[{case_label(case)}]"
        return f"{self.prop}/{self.name}/{clause}{c}"


def case_label(case) -> str:
    if isinstance(case, (tuple, list)):
        return ",".join(case_label(c) for c in case)
    return str(case)


def proof(prop, name, *, cases=None, functions=None, level="P", bounded=True, samples=40, timeout=None, uses=None,
          note="", max_paths=20000, scale=(0.1, 10.0), inlined=None, thorough_only=False):
    """thorough_only: the symbolic proof runs in the thorough tier only (the quick tier still runs its
    bounded stand-in); used for obligations whose polynomial identities take minutes."""
    def deco(fn):
        p = Proof(prop, name, fn, cases, functions, level, bounded, samples, timeout, uses, note, max_paths, scale,
                  inlined, thorough_only)
        REGISTRY.setdefault(prop, []).append(p)
        return fn

    return deco


class Reject(Exception):
    """Concrete mode: the sampled input does not satisfy the precondition."""


# ------------------------------------------------------------------------------ ctx
class Ctx:
    """What a harness sees.  mode ∈ {"symbolic", "concrete"}."""

    def __init__(self, mode, case, pathctx=None, inputs=None, rng=None, scale=(0.1, 10.0)):
        self.mode = mode
        self.case = case
        self._p = pathctx
        self.inputs: Dict[str, Any] = dict(inputs or {})
        self._given = inputs is not None
        self.rng = rng
        self.scale = scale
        self.results: List[tuple] = []  # concrete mode: (clause, ok, detail)
        self.observed: List[tuple] = []
        self.drawn: Dict[str, Any] = {}
        self.tol = 1e-7
        self._mag = None

    @property
    def symbolic(self):
        return self.mode == "symbolic"

    # -- inputs
    def _draw(self, name, sort, lo, hi):
        if self.mode == "symbolic":
            v = SReal(tm.var(name, sort))
            if lo is not None:
                self._p.assume(v >= lo)
            if hi is not None:
                self._p.assume(v <= hi)
            return v
        if name in self.drawn:
            return self.drawn[name]
        if name in self.inputs:
            v = self.inputs[name]
        elif self._given:
            # a counter-model need not mention inputs the refuted clause does not depend on: any admissible value will do
            if sort == "I":
                v = lo if lo is not None else (hi if hi is not None else 1)
            else:
                v = (lo + hi) / 2 if lo is not None and hi is not None else (lo + 1.0 if lo is not None else (hi - 1.0 if hi is not None else 0.3))
        else:
            if sort == "I":
                v = self.rng.randint(lo if lo is not None else -3, hi if hi is not None else 8)
            else:
                if self._mag is None:
                    self._mag = math.exp(self.rng.uniform(math.log(self.scale[0]), math.log(self.scale[1])))
                a = lo if lo is not None else -self._mag
                b = hi if hi is not None else self._mag
                if lo is not None and hi is None:
                    b = lo + self._mag
                if hi is not None and lo is None:
                    a = hi - self._mag
                u = self.rng.random()
                if lo is not None and hi is not None and u < 0.3:
                    # boundary-biased: within 2% of either end of a stated range
                    w = 0.02 * (b - a)
                    v = self.rng.uniform(a, a + w) if u < 0.15 else self.rng.uniform(b - w, b)
                else:
                    v = self.rng.uniform(a, b)
        v = int(v) if sort == "I" else float(v)
        self.drawn[name] = v
        return v

    def real(self, name, lo=None, hi=None):
        return self._draw(name, "R", lo, hi)

    def int(self, name, lo=None, hi=None):
        return self._draw(name, "I", lo, hi)

    def vec(self, name, n=3):
        return np.array([self.real(f"{name}{'xyzwuv'[k] if n <= 6 else k}") for k in range(n)], dtype=object if self.symbolic else float)

    def vec_from(self, name, sampler, n=3):
        """A free symbolic vector (constrained by the `assume`s that follow) in symbolic mode; in the bounded
        tier drawn by `sampler(rng)`, which is written to satisfy those assumptions (uniform draws never hit
        equality-like preconditions: 'within tolerance of', 'perpendicular to').  Recorded and replayable."""
        if self.symbolic:
            return self.vec(name, n)
        names = [f"{name}{'xyzwuv'[k] if n <= 6 else k}" for k in range(n)]
        if not (all(k in self.drawn for k in names) or all(k in self.inputs for k in names) or self._given):
            for k, v in zip(names, sampler(self.rng)):
                self.drawn[k] = float(v)
        return self.vec(name, n)

    def mat(self, name, rows, n=3):
        return np.array([[self.real(f"{name}{i}{'xyz'[k]}") for k in range(n)] for i in range(rows)],
                        dtype=object if self.symbolic else float)

    def const(self, v):
        """A literal of the code (e.g. TOL) as an exact constant: products of constants stay exact
        in symbolic mode instead of being rounded by Python float arithmetic first."""
        if self.mode == "symbolic":
            return SReal(tm.const(v))
        return v

    def choice(self, name, options):
        """A finite choice that is part of the case enumeration in concrete mode only."""
        if self.mode == "symbolic":
            raise Unsupported("ctx.choice is for concrete mode; enumerate with cases")
        if name in self.inputs:
            return self.inputs[name]
        v = self.rng.choice(list(options))
        self.drawn[name] = v
        return v

    # -- clauses (one meaning in both modes)
    def assume(self, cond, note=""):
        if self.mode == "symbolic":
            self._p.assume(cond, note)
        else:
            if not bool(cond):
                raise Reject(note)

    def prove(self, clause, cond, **info):
        if self.mode == "symbolic":
            self._p.prove(clause, cond, **info)
        else:
            ok = bool(cond)
            self.results.append((clause, ok, info))

    def lemma(self, clause, cond, **info):
        """prove(cond) as its own obligation, then use it as a hypothesis for what follows
        (sound: if the lemma fails it is reported; later proofs are conditional on it)."""
        self.prove(clause, cond, **info)
        if self.mode == "symbolic":
            self._p.assume(cond, "lemma " + clause)

    def axiom(self, text, cond):
        """A mathematical fact used as a hypothesis (A4); listed in the evidence; checked numerically
        in concrete mode so that a wrong axiom cannot hide."""
        if self.mode == "symbolic":
            self._p.notes.append("axiom (A4): " + text)
            self._p.assume(cond, "lemma axiom " + text)
        else:
            self.results.append(("axiom/" + text, bool(cond), {}))

    def eq(self, a, b, tol=None):
        """a == b (exact for proxies; within tolerance for floats), elementwise for arrays."""
        if isinstance(a, (np.ndarray, list, tuple)) or isinstance(b, (np.ndarray, list, tuple)):
            aa, bb = np.asarray(a, dtype=object), np.asarray(b, dtype=object)
            if aa.shape != bb.shape:
                return False
            return And([self.eq(x, y, tol) for x, y in zip(aa.flat, bb.flat)])
        if self.mode == "symbolic":
            r = (_S(a) == _S(b))
            return r
        tol = self.tol if tol is None else tol
        a, b = float(a), float(b)
        return abs(a - b) <= tol * max(1.0, abs(a), abs(b))

    def le(self, a, b, tol=None):
        if self.mode == "symbolic":
            return _S(a) <= _S(b)
        tol = self.tol if tol is None else tol
        return float(a) <= float(b) + tol * max(1.0, abs(float(a)), abs(float(b)))

    def lt(self, a, b, tol=None):
        if self.mode == "symbolic":
            return _S(a) < _S(b)
        tol = self.tol if tol is None else tol
        return float(a) < float(b) + tol * max(1.0, abs(float(a)), abs(float(b)))

    def identical(self, a, b):
        """The same value syntactically: the same term (symbolic) / the same float (concrete)."""
        if self.mode == "symbolic":
            return sym.lift(a) is sym.lift(b)
        return float(a) == float(b)

    def same(self, a, b):
        """Same Python object (aliasing / frame clauses)."""
        return a is b

    def atom_args(self, value, fname):
        """Arguments of every application of the opaque function `fname` (e.g. "arccos") inside a
        symbolic value - lets a harness state a lemma about what the code feeds to it without
        copying the code's expression.  Empty in concrete mode."""
        if self.mode != "symbolic":
            return []
        roots = [sym.lift(v) for v in np.asarray(value, dtype=object).flat] if not isinstance(value, SReal) else [value.t]
        out = []
        for t in tm.subterms(roots):
            if (t.op == "fn" and t.args[0] == fname) or (t.op == fname):
                a = t.args[1] if t.op == "fn" else t.args[0]
                if all(a is not b.t for b in out):
                    out.append(SReal(a))
        return out

    def atoms(self, value, fname):
        """Every application of the opaque function `fname` inside a symbolic value, as values (for lemmas such
        as "this square root is the radius").  Empty in concrete mode."""
        if self.mode != "symbolic":
            return []
        roots = [sym.lift(v) for v in np.asarray(value, dtype=object).flat] if not isinstance(value, SReal) else [value.t]
        out = []
        for t in tm.subterms(roots):
            if ((t.op == "fn" and t.args[0] == fname) or (t.op == fname)) and all(t is not b.t for b in out):
                out.append(SReal(t))
        return out

    def decisions(self):
        """Left-hand sides X of the comparisons (X < c, X <= c, ...) decided on this path so far."""
        if self.mode != "symbolic":
            return []
        out = []
        for c in self._p.pc:
            if c in self._p.assumed or c in self._p.lemmas:
                continue
            d = c.args[0] if c.op == "not" else c
            if d.op in ("lt", "le", "eq") and d.args[0].sort != "B":
                for side in d.args:
                    if not tm.is_const(side) and all(side is not b.t for b in out):
                        out.append(SReal(side))
        return out

    def rendering(self):
        """Symbolic rendering (DESIGN C06/F2): while active, formatting a symbolic number yields a
        unique placeholder token; `value(token)` maps a token of the produced text back to the number
        (in concrete mode it parses the printed number)."""
        return _Rendering(self)

    def observe(self, name, value):
        if self.mode != "symbolic":
            self.observed.append((name, _digest(value)))

    def note(self, text):
        if self.mode == "symbolic":
            self._p.notes.append(text)

    def stub(self, owner, name, replacement, only_symbolic=True):
        """Replace owner.name by a contract stub for the duration of a `with` block (DESIGN §2.3).
        By default only in symbolic mode: the run-time monitor / replay run the real callee."""
        return _Stub(owner, name, replacement, active=(self.symbolic or not only_symbolic))

    def call(self, fn, *a, **kw):
        """Call fn; returns (result, exception).  Exceptions of the engine pass through."""
        try:
            return fn(*a, **kw), None
        except (Unsupported, sym.PathInfeasible, Reject, sym.EngineError):
            raise
        except Exception as e:  # noqa: BLE001
            return None, e


class _Rendering:
    OPEN, CLOSE = "\u27e6", "\u27e7"

    def __init__(self, ctx):
        self.ctx = ctx
        self.table = []

    def __enter__(self):
        self.old = sym._FORMAT_HOOK[0]

        def hook(v, spec):
            self.table.append((v, spec))
            return f"{self.OPEN}{len(self.table) - 1}{self.CLOSE}"

        if self.ctx.symbolic:
            sym._FORMAT_HOOK[0] = hook
        return self

    def __exit__(self, *exc):
        sym._FORMAT_HOOK[0] = self.old
        return False

    def value(self, token):
        token = token.strip()
        if token.startswith(self.OPEN) and token.endswith(self.CLOSE):
            return self.table[int(token[1:-1])][0]
        try:
            return int(token)
        except ValueError:
            return float(token)

    def spec(self, token):
        token = token.strip()
        if token.startswith(self.OPEN):
            return self.table[int(token[1:-1])][1]
        return None


class _Stub:
    def __init__(self, owner, name, replacement, active):
        self.owner, self.name, self.replacement, self.active = owner, name, replacement, active

    def __enter__(self):
        if self.active:
            self.had = self.name in getattr(self.owner, "__dict__", {})
            self.old = getattr(self.owner, "__dict__", {}).get(self.name) if self.had else None
            setattr(self.owner, self.name, self.replacement)
        return self

    def __exit__(self, *exc):
        if self.active:
            if self.had:
                setattr(self.owner, self.name, self.old)
            else:
                delattr(self.owner, self.name)
        return False


def _S(v):
    if isinstance(v, SReal):
        return v
    if isinstance(v, np.ndarray) and v.shape == ():
        return _S(v.item())
    return SReal(sym.lift(v))


def _digest(v):
    if isinstance(v, (np.ndarray, list, tuple)):
        return [_digest(x) for x in np.asarray(v, dtype=object).flat]
    if isinstance(v, SReal):
        v = v.concrete()
    if isinstance(v, (float, np.floating)):
        return float(f"{float(v):.9g}")
    if isinstance(v, (int, np.integer, bool, np.bool_)):
        return int(v)
    return str(v)


# ------------------------------------------------------------------------------ symbolic run
class _JobTimeout(Exception):
    pass


def _on_alarm(sig, frm):
    raise _JobTimeout()


def run_symbolic(p: Proof, case, timeout_s: float, job_timeout_s: float, seed: int) -> dict:
    """Explore all paths of the harness and discharge every obligation.  Returns a dict that
    can be pickled to the parent process."""
    t0 = time.time()
    feas = solve.Feasibility()
    out = {"proof": p.name, "case": case_label(case) if case is not None else None, "obligations": {},
           "paths": 0, "error": None, "seconds": 0.0, "assumed_nonzero": 0, "notes": []}
    from .timer import Timeout, deadline

    try:
      with deadline(job_timeout_s):
          def body(pc):
              c = Ctx("symbolic", case, pathctx=pc)
              return p.fn(c)

          paths = sym.explore(body, feas, max_paths=p.max_paths)
          out["paths"] = len(paths)
          rng = random.Random(seed)
          for path in paths:
              out["assumed_nonzero"] += len(path.nonzero)
              for n in path.notes:
                  if n not in out["notes"]:
                      out["notes"].append(n)
              obls = list(path.obligations)
              if path.outcome[0] == "raise":
                  e = path.outcome[1]
                  tb = "".join(traceback.format_exception(type(e), e, e.__traceback__)[-3:])
                  obls.append(("no-unexpected-exception", path.pc, tm.FALSE, {"exception": f"{type(e).__name__}: {e}", "tb": tb}))
              for clause, pc, goal, info in obls:
                  oid = p.oid(clause, case)
                  if clause == "no-unexpected-exception":
                      # an exception escaping on this path: either the path is infeasible (then nothing to
                      # report) or it is a failed obligation
                      r0 = solve.discharge(tuple(pc), goal, timeout_s, poly.identity)
                      if r0["verdict"] == "proved":
                          continue
                  rec = out["obligations"].setdefault(
                      oid, {"verdict": "proved", "backends": [], "seconds": 0.0, "vcs": 0, "env": None, "text": "",
                            "cover": False})
                  rec["vcs"] += 1
                  r = solve.discharge(tuple(pc), goal, timeout_s, poly.identity)
                  rec["seconds"] = round(rec["seconds"] + r["seconds"], 4)
                  if r["backend"] and r["backend"] not in rec["backends"]:
                      rec["backends"].append(r["backend"])
                  if r["verdict"] == "refuted":
                      if rec["verdict"] != "refuted":
                          rec["verdict"] = "refuted"
                          rec["env"] = r["env"]
                          rec["text"] = (r["text"] + " " + str(info.get("exception", ""))).strip()
                          rec["goal"] = tm.show(goal, 5)[:400]
                  elif r["verdict"] == "unknown":
                      # look for a concrete counterexample before giving up
                      env = solve.numeric_search(pc, goal, tm.free_vars(list(pc) + [goal]), rng, tries=300,
                                                 scale=p.scale)
                      if env is not None and rec["verdict"] != "refuted":
                          rec["verdict"] = "refuted"
                          rec["env"] = env
                          rec["text"] = "numeric counter-model of the VC (solver unknown)"
                          rec["goal"] = tm.show(goal, 5)[:400]
                      elif rec["verdict"] == "proved":
                          rec["verdict"] = "unknown"
                          rec["text"] = r["text"][:300]
                  # cover: the path that reaches this clause is satisfiable
                  if not rec["cover"]:
                      lem = set(x.id for x in info.get("_lemmas", ()))
                      rec["cover"] = _cover([c for c in pc if c.id not in lem], rng, p.scale)
          out["feasibility_calls"] = feas.calls
    except Timeout:
        out["error"] = f"undecided: job timeout after {job_timeout_s}s"
    except Unsupported as e:
        out["error"] = f"undecided: unsupported: {e}"
    except sym.EngineError as e:
        out["error"] = f"engine: {e}"
    out["seconds"] = round(time.time() - t0, 3)
    return out


def _cover(pc, rng, scale) -> bool:
    if not pc:
        return True
    vs = tm.free_vars(pc)
    if solve.numeric_search(pc, None, vs, rng, tries=60, scale=scale) is not None:
        return True
    try:
        r, _, _ = solve.z3_check(pc, None, 2000, want_model=False)
    except Unsupported:
        return False
    return r == "sat"


# ------------------------------------------------------------------------------ concrete run
def run_concrete(p: Proof, case, inputs: Optional[dict], seed: int, n: int) -> dict:
    """Monitor mode.  inputs given → one replay; else n seeded random samples."""
    out = {"proof": p.name, "case": case_label(case) if case is not None else None, "evaluations": 0,
           "rejected": 0, "failures": [], "digest": None, "error": None, "clauses": 0}
    h = hashlib.sha1()
    base = int(hashlib.sha1(f"{seed}/{p.name}/{case_label(case)}".encode()).hexdigest()[:8], 16)
    todo = [inputs] if inputs is not None else [None] * n
    for k, inp in enumerate(todo):
        if inp is not None and "__sample__" in inp:
            # replay of a bounded-tier sample: same pseudo-random stream, remaining inputs re-drawn
            base = int(hashlib.sha1(f"{inp['__seed__']}/{p.name}/{case_label(case)}".encode()).hexdigest()[:8], 16)
            k = int(inp["__sample__"])
            inp = None
        rng = random.Random(base + k)
        np.random.seed((base + k) % (2**32))
        c = Ctx("concrete", case, inputs=inp, rng=rng, scale=p.scale)
        try:
            p.fn(c)
        except Reject:
            out["rejected"] += 1
            continue
        except Unsupported as e:
            out["error"] = f"unsupported in concrete mode: {e}"
            break
        except Exception as e:  # noqa: BLE001  an exception escaping the harness
            tb = "".join(traceback.format_exception(type(e), e, e.__traceback__)[-4:])
            c.results.append(("no-unexpected-exception", False, {"exception": f"{type(e).__name__}: {e}", "tb": tb}))
        out["evaluations"] += 1
        out["clauses"] += len(c.results)
        for clause, ok, info in c.results:
            h.update(f"{clause}:{int(ok)};".encode())
            if not ok:
                out["failures"].append({"oid": p.oid(clause, case), "clause": clause,
                                        "inputs": dict(c.drawn) if inputs is not None and "__sample__" not in (inputs or {})
                                        else {**dict(c.drawn), "__sample__": k, "__seed__": seed},
                                        "info": {k2: str(v)[:600] for k2, v in info.items()}})
        for name, d in c.observed:
            h.update(f"{name}={d};".encode())
        if len(out["failures"]) >= 5:
            break
    out["digest"] = h.hexdigest()
    return out
