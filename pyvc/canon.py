"""Congruence of opaque atoms (DESIGN §2.2: "two atoms whose arguments have the same normal
form are the same atom").

`canonicalise(terms)` rewrites a list of terms so that two applications f(a), f(b) of the same
opaque function (sqrt, sin, cos, arccos, pow, log, ...) become the *same* term whenever a == b
can be proved (structurally, by the ideal back end, or by SMT on the abstraction).  Candidates
are found by numeric fingerprints (evaluation at random points); a fingerprint match is only a
hint – unification happens only after a proof, so the rewriting is sound.
"""
from __future__ import annotations

import random
import time
from typing import Dict, List, Sequence, Tuple

from . import poly, solve
from . import terms as tm
from .terms import T

OPAQUE = ("sqrt", "fn")


def _fingerprints(order: Sequence[T], rng: random.Random, n=2):
    vars_ = [x for x in order if x.op == "var" and x.args[0] != tm.PI_NAME]
    fps = []
    for _ in range(n):
        for attempt in range(20):
            env = {}
            for v in vars_:
                if v.sort == "I":
                    env[v.args[0]] = rng.randint(1, 6)
                elif v.sort == "B":
                    env[v.args[0]] = rng.random() < 0.5
                else:
                    env[v.args[0]] = rng.uniform(0.3, 1.7) * rng.choice((-1, 1))
            cache: Dict[int, object] = {}
            ok = True
            for x in order:
                try:
                    cache[x.id] = tm._eval1(x, env, cache, {})
                except (tm.EvalError, KeyError, TypeError, ZeroDivisionError, OverflowError, ValueError):
                    cache[x.id] = None
            fps.append(cache)
            break
    return fps


def _close(a, b):
    if a is None or b is None:
        return True  # unknown: let the prover decide
    if isinstance(a, bool) or isinstance(b, bool):
        return a == b
    try:
        return abs(a - b) <= 1e-7 * max(1.0, abs(a), abs(b))
    except TypeError:
        return False


def canonicalise(ts: Sequence[T], seed=0, budget_s=60.0, pc: Tuple[T, ...] = ()) -> Tuple[List[T], dict]:
    t0 = time.time()
    order = sorted(tm.subterms(ts), key=lambda x: x.id)
    if not any(x.op in OPAQUE for x in order):
        return list(ts), {"atoms": 0, "merged": 0}
    rng = random.Random(seed)
    fps = _fingerprints(order, rng)
    new: Dict[int, T] = {}
    reps: Dict[tuple, List[Tuple[T, T]]] = {}  # key -> [(original, canonical)]
    merged = 0
    atoms = 0
    proofs = 0
    for x in order:
        kids = [a for a in x.args if isinstance(a, T)]
        if kids and any(new[k.id] is not k for k in kids):
            nx = tm.mk(x.op, tuple(new[a.id] if isinstance(a, T) else a for a in x.args), x.sort)
        else:
            nx = x
        if x.op in OPAQUE:
            atoms += 1
            key = (x.op, x.args[0] if x.op == "fn" else None, len(kids))
            found = None
            for orig, rep in reps.get(key, []):
                if rep is nx:
                    found = rep
                    break
                if not all(_close(fp[orig.id], fp[x.id]) for fp in fps):
                    continue
                if time.time() - t0 > budget_s:
                    continue
                rargs = [a for a in rep.args if isinstance(a, T)]
                nargs = [a for a in nx.args if isinstance(a, T)]
                same = True
                for a, b in zip(nargs, rargs):
                    if a is b:
                        continue
                    proofs += 1
                    if not _equal(a, b, pc, max(1.0, budget_s - (time.time() - t0))):
                        same = False
                        break
                if same:
                    found = rep
                    break
            if found is not None:
                if found is not nx:
                    merged += 1
                new[x.id] = found
            else:
                reps.setdefault(key, []).append((x, nx))
                new[x.id] = nx
        else:
            new[x.id] = nx
    return [new[t.id] for t in ts], {"atoms": atoms, "merged": merged, "equality_proofs": proofs,
                                     "seconds": round(time.time() - t0, 3)}


def _equal(a: T, b: T, pc, timeout_s) -> bool:
    if a is b:
        return True
    # congruence through the arithmetic skeleton (x/y == x'/y' if x == x' and y == y')
    if a.op == b.op and a.op in ("div", "neg", "powi", "toreal", "mul") and len(a.args) == len(b.args):
        if all((x is y) if not isinstance(x, T) else (isinstance(y, T) and x.sort == y.sort) for x, y in zip(a.args, b.args)):
            if all(_equal(x, y, pc, timeout_s) for x, y in zip(a.args, b.args) if isinstance(x, T)):
                return True
    try:
        ok, _ = poly.identity((), a, b, min(timeout_s, 60.0))
        if ok:
            return True
    except tm.Unsupported:
        pass
    # arguments with ite/abs/max: decide on the abstraction by SMT
    try:
        goal = tm.eq(a, b)
        ab, facts = solve.abstract(list(pc) + [goal], limit=4, atoms_as_vars=True)
        r, _, _ = solve.z3_check(ab[:-1] + facts, ab[-1], int(min(timeout_s, 5.0) * 1000), want_model=False)
        return r == "unsat"
    except tm.Unsupported:
        return False
