"""Nestable wall-clock deadlines on top of SIGALRM/ITIMER_REAL."""
import signal
import time
from contextlib import contextmanager

_STACK = []  # absolute deadlines, innermost last


class Timeout(BaseException):
    pass


def _handler(sig, frm):
    raise Timeout()


def _arm():
    if _STACK:
        # repeating: if one Timeout is swallowed somewhere (a bare except, a C callback) another follows
        signal.setitimer(signal.ITIMER_REAL, max(0.001, min(_STACK) - time.time()), 0.5)
    else:
        signal.setitimer(signal.ITIMER_REAL, 0)


@contextmanager
def deadline(seconds: float):
    """Raises Timeout inside the block when `seconds` elapse (or an outer deadline does)."""
    if not _STACK:
        signal.signal(signal.SIGALRM, _handler)
    _STACK.append(time.time() + seconds)
    _arm()
    try:
        yield
    finally:
        _STACK.pop()
        _arm()


def expired_here(t_start: float, seconds: float) -> bool:
    return time.time() - t_start >= seconds - 0.01
