"""Hash-consed term DAG used by the symbolic proxies (DESIGN §2.2).

Sorts: 'R' real, 'I' integer, 'B' boolean.  Constants are exact rationals (a Python float
that enters a term is read through its shortest decimal repr -- assumption A1: floats are
reals).  Terms are immutable and interned, so structural identity is object identity.
"""
from __future__ import annotations

import math
from fractions import Fraction
from typing import Dict, Iterable, Optional, Tuple

_TABLE: Dict[tuple, "T"] = {}
_COUNTER = [0]


class T:
    __slots__ = ("op", "args", "sort", "id", "__weakref__")

    def __init__(self, op, args, sort, id_):
        self.op = op
        self.args = args
        self.sort = sort
        self.id = id_

    def __repr__(self):
        return show(self)

    # never compare terms with ==; identity is equality
    def __hash__(self):
        return self.id

    def __eq__(self, other):
        return self is other


def mk(op: str, args: tuple, sort: str) -> T:
    key = (op, args, sort)
    t = _TABLE.get(key)
    if t is None:
        _COUNTER[0] += 1
        t = T(op, args, sort, _COUNTER[0])
        _TABLE[key] = t
    return t


def reset():
    """Forget all terms (used between independent proofs to bound memory)."""
    _TABLE.clear()


# ------------------------------------------------------------------------------ constants
PI_NAME = "pi"


def var(name: str, sort: str = "R") -> T:
    return mk("var", (name,), sort)


def const(v) -> T:
    if isinstance(v, bool):
        return TRUE if v else FALSE
    if isinstance(v, int):
        return mk("const", (Fraction(v),), "I")
    if isinstance(v, Fraction):
        return mk("const", (v,), "I" if v.denominator == 1 and False else "R")
    if isinstance(v, float):
        if v != v or v in (math.inf, -math.inf):
            raise Unsupported(f"non-finite float constant {v}")
        if v == int(v) and abs(v) < 1e15:
            return mk("const", (Fraction(int(v)),), "R")
        # multiples of pi that the code computes in floats (np.pi / 2, 2 * np.pi ...)
        q = v / math.pi
        fr = Fraction(q).limit_denominator(720)
        if fr != 0 and abs(float(fr) * math.pi - v) <= 4e-16 * max(1.0, abs(v)):
            return mul(mk("const", (fr,), "R"), PI)
        return mk("const", (Fraction(repr(v)),), "R")
    try:
        import numpy as np

        if isinstance(v, np.bool_):
            return TRUE if bool(v) else FALSE
        if isinstance(v, np.integer):
            return const(int(v))
        if isinstance(v, np.floating):
            return const(float(v))
    except ImportError:  # pragma: no cover
        pass
    raise Unsupported(f"cannot make a constant from {type(v).__name__}: {v!r}")


class Unsupported(Exception):
    """The engine cannot follow the code here; the obligation is *undecided*."""


TRUE = mk("true", (), "B")
FALSE = mk("false", (), "B")
PI = mk("var", (PI_NAME,), "R")
ZERO = mk("const", (Fraction(0),), "R")
ONE = mk("const", (Fraction(1),), "R")


def is_const(t: T) -> bool:
    return t.op == "const"


def cval(t: T) -> Fraction:
    return t.args[0]


def _by_id(t: "T") -> int:
    return t.id


def _num_sort(*ts: T) -> str:
    return "I" if all(t.sort == "I" for t in ts) else "R"


def _c(v: Fraction, sort: str) -> T:
    return mk("const", (v,), sort)


# ------------------------------------------------------------------------------ arithmetic
def add(a: T, b: T) -> T:
    s = _num_sort(a, b)
    if is_const(a) and is_const(b):
        return _c(cval(a) + cval(b), s)
    if is_const(a) and cval(a) == 0:
        return b if b.sort == s else mk("toreal", (b,), "R")
    if is_const(b) and cval(b) == 0:
        return a if a.sort == s else mk("toreal", (a,), "R")
    # flatten, constants last-summed
    items = []
    c = Fraction(0)
    for x in (a, b):
        if x.op == "add":
            for y in x.args:
                if is_const(y):
                    c += cval(y)
                else:
                    items.append(y)
        elif is_const(x):
            c += cval(x)
        else:
            items.append(x)
    items.sort(key=_by_id)  # AC-normal form: a+b and b+a are the same term
    if c != 0:
        items.append(_c(c, s))
    if not items:
        return _c(Fraction(0), s)
    if len(items) == 1:
        return items[0]
    return mk("add", tuple(items), s)


def neg(a: T) -> T:
    if is_const(a):
        return _c(-cval(a), a.sort)
    if a.op == "neg":
        return a.args[0]
    return mk("neg", (a,), a.sort)


def sub(a: T, b: T) -> T:
    if a is b:
        return _c(Fraction(0), _num_sort(a, b))
    return add(a, neg(b))


def mul(a: T, b: T) -> T:
    s = _num_sort(a, b)
    if is_const(a) and is_const(b):
        return _c(cval(a) * cval(b), s)
    for x, y in ((a, b), (b, a)):
        if is_const(x):
            if cval(x) == 0:
                return _c(Fraction(0), s)
            if cval(x) == 1:
                return y if y.sort == s else mk("toreal", (y,), "R")
            if cval(x) == -1:
                return neg(y)
    items = []
    c = Fraction(1)
    sign = 1
    for x in (a, b):
        if x.op == "neg":
            sign = -sign
            x = x.args[0]
        if x.op == "mul":
            for y in x.args:
                if is_const(y):
                    c *= cval(y)
                else:
                    items.append(y)
        elif is_const(x):
            c *= cval(x)
        else:
            items.append(x)
    c *= sign
    if c == 0:
        return _c(Fraction(0), s)
    items.sort(key=_by_id)
    if c != 1:
        items.insert(0, _c(c, s))
    if len(items) == 1:
        return items[0]
    return mk("mul", tuple(items), s)


def div(a: T, b: T) -> T:
    if is_const(b):
        if cval(b) == 0:
            raise ZeroDivisionError("division by the constant zero")
        return mul(a, _c(1 / cval(b), "R"))
    if a is b:
        return ONE
    if is_const(a) and cval(a) == 0:
        return ZERO
    return mk("div", (a, b), "R")


def powi(a: T, n: int) -> T:
    """a ** n for a concrete integer n."""
    if n == 0:
        return _c(Fraction(1), a.sort)
    if n == 1:
        return a
    if n < 0:
        return div(ONE, powi(a, -n))
    if is_const(a):
        return _c(cval(a) ** n, a.sort)
    if a.op == "sqrt" and n % 2 == 0:
        return powi(a.args[0], n // 2)
    return mk("powi", (a, n), a.sort)


def sqrt(a: T) -> T:
    if is_const(a):
        v = cval(a)
        if v < 0:
            raise Unsupported("sqrt of a negative constant")
        n, d = math.isqrt(v.numerator), math.isqrt(v.denominator)
        if n * n == v.numerator and d * d == v.denominator:
            return _c(Fraction(n, d), "R")
    return mk("sqrt", (a,), "R")


def fn(name: str, *args: T, sort: str = "R") -> T:
    """Application of a named (uninterpreted or axiomatised) function."""
    return mk("fn", (name,) + tuple(args), sort)


def ite(c: T, a: T, b: T) -> T:
    if c is TRUE:
        return a
    if c is FALSE:
        return b
    if a is b:
        return a
    return mk("ite", (c, a, b), _num_sort(a, b) if a.sort != "B" else "B")


def trunc(a: T) -> T:
    """int(x): truncation towards zero."""
    if a.sort == "I":
        return a
    if is_const(a):
        return _c(Fraction(math.trunc(cval(a))), "I")
    return mk("trunc", (a,), "I")


def floordiv(a: T, b: T) -> T:
    if is_const(a) and is_const(b) and a.sort == "I" and b.sort == "I":
        return _c(Fraction(int(cval(a)) // int(cval(b))), "I")
    return mk("floordiv", (a, b), "I")


def mod(a: T, b: T) -> T:
    if is_const(a) and is_const(b) and a.sort == "I" and b.sort == "I":
        return _c(Fraction(int(cval(a)) % int(cval(b))), "I")
    return mk("mod", (a, b), "I")


# ------------------------------------------------------------------------------ predicates
def _cmp(op, a: T, b: T) -> T:
    if is_const(a) and is_const(b):
        x, y = cval(a), cval(b)
        return const({"lt": x < y, "le": x <= y, "eq": x == y}[op])
    if a is b:
        return const(op != "lt")
    return mk(op, (a, b), "B")


def lt(a, b):
    return _cmp("lt", a, b)


def le(a, b):
    return _cmp("le", a, b)


def eq(a, b):
    if a.sort == "B" or b.sort == "B":
        if a is b:
            return TRUE
        return mk("iff", (a, b), "B")
    return _cmp("eq", a, b)


def not_(a: T) -> T:
    if a is TRUE:
        return FALSE
    if a is FALSE:
        return TRUE
    if a.op == "not":
        return a.args[0]
    return mk("not", (a,), "B")


def and_(*xs: T) -> T:
    out = []
    for x in xs:
        if x is FALSE:
            return FALSE
        if x is TRUE:
            continue
        if x.op == "and":
            out.extend(x.args)
        else:
            out.append(x)
    seen = []
    for x in out:
        if x not in seen:
            seen.append(x)
    if not seen:
        return TRUE
    if len(seen) == 1:
        return seen[0]
    return mk("and", tuple(seen), "B")


def or_(*xs: T) -> T:
    out = []
    for x in xs:
        if x is TRUE:
            return TRUE
        if x is FALSE:
            continue
        if x.op == "or":
            out.extend(x.args)
        else:
            out.append(x)
    seen = []
    for x in out:
        if x not in seen:
            seen.append(x)
    if not seen:
        return FALSE
    if len(seen) == 1:
        return seen[0]
    return mk("or", tuple(seen), "B")


def implies(a: T, b: T) -> T:
    return or_(not_(a), b)


# ------------------------------------------------------------------------------ traversal
def subterms(roots: Iterable[T]):
    seen = set()
    stack = list(roots)
    order = []
    while stack:
        t = stack.pop()
        if t.id in seen:
            continue
        seen.add(t.id)
        order.append(t)
        for a in t.args:
            if isinstance(a, T):
                stack.append(a)
    return order


def substitute(roots, mapping: Dict[int, "T"]):
    """Replace subterms (by id) with the given terms, rebuilding with the smart constructors."""
    order = sorted(subterms(roots), key=_by_id)
    new: Dict[int, T] = {}
    for x in order:
        if x.id in mapping:
            new[x.id] = mapping[x.id]
            continue
        kids = [a for a in x.args if isinstance(a, T)]
        if not kids or all(new[k.id] is k for k in kids):
            new[x.id] = x
            continue
        args = [new[a.id] if isinstance(a, T) else a for a in x.args]
        new[x.id] = rebuild(x.op, args, x.sort)
    return [new[t.id] for t in roots]


def rebuild(op, args, sort):
    if op == "add":
        r = args[0]
        for a in args[1:]:
            r = add(r, a)
        return r
    if op == "mul":
        r = args[0]
        for a in args[1:]:
            r = mul(r, a)
        return r
    if op == "neg":
        return neg(args[0])
    if op == "div":
        return div(args[0], args[1])
    if op == "powi":
        return powi(args[0], args[1])
    if op == "sqrt":
        return sqrt(args[0])
    if op == "ite":
        return ite(args[0], args[1], args[2])
    if op in ("lt", "le"):
        return _cmp(op, args[0], args[1])
    if op == "eq":
        return eq(args[0], args[1])
    if op == "not":
        return not_(args[0])
    if op == "and":
        return and_(*args)
    if op == "or":
        return or_(*args)
    return mk(op, tuple(args), sort)


def free_vars(roots: Iterable[T]):
    return sorted({t for t in subterms(roots) if t.op == "var"}, key=lambda t: t.id)


def show(t: T, depth: int = 6) -> str:
    if t.op == "var":
        return t.args[0]
    if t.op == "const":
        v = cval(t)
        return str(v.numerator) if v.denominator == 1 else f"{v.numerator}/{v.denominator}"
    if t.op in ("true", "false"):
        return t.op
    if depth == 0:
        return "…"
    a = [show(x, depth - 1) if isinstance(x, T) else str(x) for x in t.args]
    if t.op == "add":
        return "(" + " + ".join(a) + ")"
    if t.op == "mul":
        return "(" + "*".join(a) + ")"
    if t.op == "neg":
        return "-" + a[0]
    if t.op == "div":
        return f"({a[0]}/{a[1]})"
    if t.op == "powi":
        return f"{a[0]}^{a[1]}"
    if t.op in ("lt", "le", "eq"):
        return f"({a[0]} {dict(lt='<', le='<=', eq='==')[t.op]} {a[1]})"
    if t.op == "fn":
        return f"{a[0]}({', '.join(a[1:])})"
    return f"{t.op}({', '.join(a)})"


# ------------------------------------------------------------------------------ numeric eval
class EvalError(Exception):
    pass


EQ_TOL = [0.0]  # relative tolerance used when evaluating eq numerically (set by numeric_search for goals)


def evalf(t: T, env: Dict[str, float], cache: Optional[dict] = None, fns: Optional[dict] = None):
    """Evaluate a term with floats (used by the concretiser and for cover checks)."""
    if cache is None:
        cache = {}
    order = subterms([t])
    # post-order: children have larger stack positions; evaluate by id (children are older)
    for x in sorted(order, key=lambda z: z.id):
        if x.id in cache:
            continue
        cache[x.id] = _eval1(x, env, cache, fns or {})
    return cache[t.id]


def _eval1(x: T, env, cache, fns):
    op = x.op
    g = lambda a: cache[a.id]
    try:
        if op == "const":
            v = cval(x)
            return int(v) if x.sort == "I" else float(v)
        if op == "var":
            if x.args[0] == PI_NAME:
                return math.pi
            if x.args[0] not in env:
                raise EvalError(f"no value for {x.args[0]}")
            return env[x.args[0]]
        if op == "true":
            return True
        if op == "false":
            return False
        if op == "add":
            return sum(g(a) for a in x.args)
        if op == "mul":
            r = 1
            for a in x.args:
                r = r * g(a)
            return r
        if op == "neg":
            return -g(x.args[0])
        if op == "toreal":
            return float(g(x.args[0]))
        if op == "div":
            return g(x.args[0]) / g(x.args[1])
        if op == "powi":
            return g(x.args[0]) ** x.args[1]
        if op == "sqrt":
            v = g(x.args[0])
            if v < 0:
                if v > -1e-12:
                    return 0.0
                raise EvalError("sqrt of negative")
            return math.sqrt(v)
        if op == "trunc":
            return int(g(x.args[0]))
        if op == "floordiv":
            return g(x.args[0]) // g(x.args[1])
        if op == "mod":
            return g(x.args[0]) % g(x.args[1])
        if op == "ite":
            return g(x.args[1]) if g(x.args[0]) else g(x.args[2])
        if op == "lt":
            return g(x.args[0]) < g(x.args[1])
        if op == "le":
            return g(x.args[0]) <= g(x.args[1])
        if op == "eq":
            a_, b_ = g(x.args[0]), g(x.args[1])
            if EQ_TOL[0] and isinstance(a_, float) or isinstance(b_, float):
                return abs(a_ - b_) <= EQ_TOL[0] * (1.0 + abs(a_) + abs(b_))
            return a_ == b_
        if op == "iff":
            return bool(g(x.args[0])) == bool(g(x.args[1]))
        if op == "not":
            return not g(x.args[0])
        if op == "and":
            return all(g(a) for a in x.args)
        if op == "or":
            return any(g(a) for a in x.args)
        if op == "fn":
            name = x.args[0]
            vals = [g(a) for a in x.args[1:]]
            if name in fns:
                return fns[name](*vals)
            if name in _MATH:
                return _MATH[name](*vals)
            raise EvalError(f"no numeric meaning for function {name}")
    except (ZeroDivisionError, ValueError, OverflowError) as e:
        raise EvalError(str(e))
    raise EvalError(f"cannot evaluate {op}")


def _clip_acos(v):
    return math.acos(max(-1.0, min(1.0, v)))


_MATH = {
    "sin": math.sin,
    "cos": math.cos,
    "tan": math.tan,
    "arccos": _clip_acos,
    "arcsin": lambda v: math.asin(max(-1.0, min(1.0, v))),
    "arctan": math.atan,
    "arctan2": math.atan2,
    "log": math.log,
    "log10": math.log10,
    "exp": math.exp,
    "pow": lambda a, b: a ** b,
}
