"""Symbolic proxies and the re-execution path scheduler (DESIGN §2.1).

The real functions of classy_blocks are *executed* on SReal / SBool values.  Arithmetic builds
terms; `SBool.__bool__` is a decision point recorded in the active PathCtx.  `explore` re-runs
the code once per feasible decision schedule.
"""
from __future__ import annotations

import math
from fractions import Fraction
from typing import Any, Callable, List, Optional

import numpy as np

from . import terms as tm
from .terms import T, Unsupported

# ------------------------------------------------------------------------------ context
_ACTIVE: List["PathCtx"] = []


def ctx() -> "PathCtx":
    if not _ACTIVE:
        raise Unsupported("symbolic value used outside an active path context")
    return _ACTIVE[-1]


class PathInfeasible(Exception):
    """Raised to abandon a path whose condition is unsatisfiable / assumed away."""


class PathCtx:
    def __init__(self, prefix, feasible: Callable[[list, T], Optional[bool]]):
        self.prefix = list(prefix)
        self.taken: List[bool] = []
        self.pc: List[T] = []  # path condition (decisions and assumptions)
        self.alternatives: List[list] = []
        self.obligations: List[tuple] = []  # (name, pc snapshot, goal term, info)
        self.assumed: List[T] = []
        self.lemmas: List[T] = []  # proved-then-assumed facts (not restrictions of the input space)
        self.notes: List[str] = []
        self.nonzero: List[T] = []  # divisors assumed non-zero (A1)
        self._feasible = feasible
        self.n_decisions = 0

    # -- decisions
    def decide(self, t: T) -> bool:
        if t is tm.TRUE:
            return True
        if t is tm.FALSE:
            return False
        nt = tm.not_(t)
        # already implied syntactically?
        if t in self.pc:
            return True
        if nt in self.pc:
            return False
        i = len(self.taken)
        self.n_decisions += 1
        if i < len(self.prefix):
            choice = self.prefix[i]
        else:
            can_t = self._feasible(self.pc, t)
            can_f = self._feasible(self.pc, nt)
            if can_t is False and can_f is False:
                raise PathInfeasible()
            if can_t is False:
                # implied: recorded in the schedule (so that a replay consumes it) but no alternative
                self.taken.append(False)
                self.pc.append(nt)
                return False
            if can_f is False:
                self.taken.append(True)
                self.pc.append(t)
                return True
            choice = True
            self.alternatives.append(self.taken + [False])
        self.taken.append(choice)
        self.pc.append(t if choice else nt)
        return choice

    # -- contract interface
    def assume(self, cond, note: str = ""):
        c = as_bool_term(cond)
        if c is tm.FALSE:
            raise PathInfeasible()
        if c is not tm.TRUE:
            for x in (c.args if c.op == "and" else (c,)):
                if x not in self.pc:
                    self.pc.append(x)
                    (self.lemmas if note.startswith("lemma") else self.assumed).append(x)

    def prove(self, _clause: str, cond, **info):
        c = as_bool_term(cond)
        info = dict(info)
        info["_lemmas"] = tuple(self.lemmas)
        self.obligations.append((_clause, tuple(self.pc), c, info))


def as_bool_term(v) -> T:
    if isinstance(v, SBool):
        return v.t
    if isinstance(v, (bool, np.bool_)):
        return tm.TRUE if v else tm.FALSE
    if isinstance(v, T) and v.sort == "B":
        return v
    raise Unsupported(f"not a boolean: {type(v).__name__}")


# ------------------------------------------------------------------------------ proxies
def lift(v) -> T:
    if isinstance(v, SReal):
        return v.t
    if isinstance(v, SBool):
        return tm.ite(v.t, tm.const(1), tm.const(0))
    if isinstance(v, (bool, np.bool_)):
        return tm.const(int(v))
    if isinstance(v, (int, float, Fraction, np.integer, np.floating)):
        return tm.const(v)
    if isinstance(v, np.ndarray) and v.shape == ():
        return lift(v.item())
    raise Unsupported(f"cannot lift {type(v).__name__}")


def _liftable(v) -> bool:
    return isinstance(v, (SReal, int, float, Fraction, np.integer, np.floating, bool, np.bool_)) or (
        isinstance(v, np.ndarray) and v.shape == () and v.dtype != object
    )


class SReal:
    """A symbolic real (sort R) or integer (sort I)."""

    __slots__ = ("t",)
    # numpy: treat as a scalar object; let ndarray ops broadcast over us
    __array_priority__ = -1000.0

    def __init__(self, t: T):
        self.t = t

    # -- construction helpers
    @staticmethod
    def wrap(t: T):
        return SReal(t)

    @property
    def is_int(self):
        return self.t.sort == "I"

    def concrete(self):
        """Python number if this is a constant, else None."""
        if tm.is_const(self.t):
            v = tm.cval(self.t)
            return int(v) if self.t.sort == "I" else float(v)
        return None

    # -- arithmetic
    def _bin(self, other, f, swap=False):
        if isinstance(other, np.ndarray) and other.shape != ():
            return NotImplemented
        if not _liftable(other):
            return NotImplemented
        o = lift(other)
        return SReal(f(o, self.t) if swap else f(self.t, o))

    def __add__(self, o):
        return self._bin(o, tm.add)

    def __radd__(self, o):
        return self._bin(o, tm.add, True)

    def __sub__(self, o):
        return self._bin(o, tm.sub)

    def __rsub__(self, o):
        return self._bin(o, tm.sub, True)

    def __mul__(self, o):
        return self._bin(o, tm.mul)

    def __rmul__(self, o):
        return self._bin(o, tm.mul, True)

    def _div(self, a: T, b: T) -> T:
        if not tm.is_const(b) and _ACTIVE:
            c = _ACTIVE[-1]
            if b not in c.nonzero:
                c.nonzero.append(b)
        return tm.div(a, b)

    def __truediv__(self, o):
        return self._bin(o, self._div)

    def __rtruediv__(self, o):
        return self._bin(o, self._div, True)

    def __floordiv__(self, o):
        return self._bin(o, tm.floordiv)

    def __rfloordiv__(self, o):
        return self._bin(o, tm.floordiv, True)

    def __mod__(self, o):
        return self._bin(o, tm.mod)

    def __rmod__(self, o):
        return self._bin(o, tm.mod, True)

    def __neg__(self):
        return SReal(tm.neg(self.t))

    def __pos__(self):
        return self

    def __abs__(self):
        c = self.concrete()
        if c is not None:
            return SReal(tm.const(abs(c)))
        if self.t.op == "sqrt":
            return self
        return SReal(tm.ite(tm.le(tm.const(0), self.t), self.t, tm.neg(self.t)))

    def __pow__(self, e):
        if isinstance(e, SReal):
            ce = e.concrete()
            if ce is None:
                return SReal(tm.fn("pow", self.t, e.t))
            e = ce
        if isinstance(e, (np.integer,)):
            e = int(e)
        if isinstance(e, (float, np.floating)):
            if float(e) == int(e):
                e = int(e)
            elif float(e) == 0.5:
                return self.sqrt()
            else:
                return SReal(tm.fn("pow", self.t, tm.const(float(e))))
        if isinstance(e, int):
            if e < 0:
                return SReal(self._div(tm.ONE, tm.powi(self.t, -e)))
            return SReal(tm.powi(self.t, e))
        if isinstance(e, Fraction):
            return SReal(tm.fn("pow", self.t, tm.const(e)))
        return NotImplemented

    def __rpow__(self, base):
        if not _liftable(base):
            return NotImplemented
        ce = self.concrete()
        if ce is not None:
            return base ** ce
        return SReal(tm.fn("pow", lift(base), self.t))

    # -- numpy ufunc protocol on object arrays calls these methods
    def sqrt(self):
        return SReal(tm.sqrt(self.t))

    def _fn(name):  # noqa: N805
        def m(self):
            c = self.concrete()
            if c is not None:
                ex = _EXACT_FN.get((name, c))
                if ex is not None:
                    return SReal(ex())
            t = self.t
            if name in ("sin", "cos", "tan"):
                # A4 (Lean-backed): cos(-a) = cos a, sin(-a) = -sin a; cos(arccos x) = x and
                # sin(arccos x) = sqrt(1 - x^2) for -1 <= x <= 1 (the guard is recorded as an obligation)
                if t.op == "neg":
                    inner = getattr(SReal(t.args[0]), name)()
                    return inner if name == "cos" else -inner
                if t.op == "fn" and t.args[0] == "arccos":
                    x = SReal(t.args[1])
                    if _ACTIVE:
                        g = tm.and_(tm.le(tm.const(-1), x.t), tm.le(x.t, tm.const(1)))
                        if g is not tm.TRUE:
                            _ACTIVE[-1].prove("trig-guard/arccos-argument-in-[-1,1]", SBool(g))
                    if name == "cos":
                        return x
                    if name == "sin":
                        return (1 - x * x).sqrt()
            return SReal(tm.fn(name, t))

        m.__name__ = name
        return m

    sin = _fn("sin")
    cos = _fn("cos")
    tan = _fn("tan")
    arccos = _fn("arccos")
    arcsin = _fn("arcsin")
    arctan = _fn("arctan")
    log = _fn("log")
    log10 = _fn("log10")
    exp = _fn("exp")
    del _fn

    def arctan2(self, other):
        return SReal(tm.fn("arctan2", self.t, lift(other)))

    def conjugate(self):
        return self

    def __float__(self):
        c = self.concrete()
        if c is not None:
            return float(c)
        raise Unsupported("float() of a symbolic value (uninstrumented call site)")

    def __int__(self):
        c = self.concrete()
        if c is not None:
            return int(c)
        raise Unsupported("int() of a symbolic value (uninstrumented call site)")

    def __index__(self):
        c = self.concrete()
        if c is not None and self.t.sort == "I":
            return int(c)
        raise Unsupported("symbolic value used as an index")

    def __round__(self, n=None):
        raise Unsupported("round() of a symbolic value")

    # -- comparisons
    def _cmp(self, o, f, swap=False):
        if isinstance(o, np.ndarray) and o.shape != ():
            return NotImplemented
        if not _liftable(o):
            return NotImplemented
        b = lift(o)
        return SBool(f(b, self.t) if swap else f(self.t, b))

    def __lt__(self, o):
        return self._cmp(o, tm.lt)

    def __le__(self, o):
        return self._cmp(o, tm.le)

    def __gt__(self, o):
        return self._cmp(o, tm.lt, True)

    def __ge__(self, o):
        return self._cmp(o, tm.le, True)

    def __eq__(self, o):
        if o is None or isinstance(o, str):
            return False
        return self._cmp(o, tm.eq)

    def __ne__(self, o):
        r = self.__eq__(o)
        if r is NotImplemented:
            return r
        if r is False:
            return True
        return ~r

    def __hash__(self):
        c = self.concrete()
        if c is not None:
            return hash(c)
        raise Unsupported("hash() of a symbolic value (use the proxy-aware set/dict shims)")

    def __bool__(self):
        return (self != 0).__bool__()

    def __repr__(self):
        return f"<{tm.show(self.t, 3)}>"

    def __format__(self, spec):
        c = self.concrete()
        if c is not None:
            return format(c, spec)
        hook = _FORMAT_HOOK[0]
        if hook is not None:
            return hook(self, spec)
        return f"<{tm.show(self.t, 2)}:{spec}>"

    def __str__(self):
        return self.__format__("")

    def __deepcopy__(self, memo):
        return self

    def __copy__(self):
        return self


_FORMAT_HOOK = [None]
_HALF = Fraction(1, 2)
_EXACT_FN = {
    ("arccos", 0): lambda: tm.mul(tm.const(_HALF), tm.PI), ("arccos", 1): lambda: tm.ZERO, ("arccos", -1): lambda: tm.PI,
    ("arcsin", 0): lambda: tm.ZERO, ("arcsin", 1): lambda: tm.mul(tm.const(_HALF), tm.PI),
    ("sin", 0): lambda: tm.ZERO, ("cos", 0): lambda: tm.ONE, ("tan", 0): lambda: tm.ZERO, ("arctan", 0): lambda: tm.ZERO,
    ("log", 1): lambda: tm.ZERO, ("log10", 1): lambda: tm.ZERO, ("exp", 0): lambda: tm.ONE,
}


class SBool:
    __slots__ = ("t",)

    def __init__(self, t: T):
        self.t = t

    def __bool__(self):
        if self.t is tm.TRUE:
            return True
        if self.t is tm.FALSE:
            return False
        return ctx().decide(self.t)

    def __and__(self, o):
        return SBool(tm.and_(self.t, as_bool_term(o)))

    __rand__ = __and__

    def __or__(self, o):
        return SBool(tm.or_(self.t, as_bool_term(o)))

    __ror__ = __or__

    def __invert__(self):
        return SBool(tm.not_(self.t))

    def __eq__(self, o):
        return SBool(tm.eq(self.t, as_bool_term(o)))

    def __ne__(self, o):
        return SBool(tm.not_(tm.eq(self.t, as_bool_term(o))))

    def __hash__(self):
        return hash(bool(self))

    def __repr__(self):
        return f"<{tm.show(self.t, 3)}>"

    def __deepcopy__(self, memo):
        return self


# ------------------------------------------------------------------------------ formula helpers
# These work on concrete values *and* proxies, so contract clauses have one meaning in the
# verifier and in the run-time monitor (DESIGN §2.3).


def And(*xs):
    xs = [x for y in xs for x in (y if isinstance(y, (list, tuple)) else [y])]
    if all(isinstance(x, (bool, np.bool_)) for x in xs):
        return all(xs)
    return SBool(tm.and_(*[as_bool_term(x) for x in xs]))


def Or(*xs):
    xs = [x for y in xs for x in (y if isinstance(y, (list, tuple)) else [y])]
    if all(isinstance(x, (bool, np.bool_)) for x in xs):
        return any(xs)
    return SBool(tm.or_(*[as_bool_term(x) for x in xs]))


def Not(x):
    if isinstance(x, (bool, np.bool_)):
        return not x
    return SBool(tm.not_(as_bool_term(x)))


def Implies(a, b):
    return Or(Not(a), b)


def Ite(c, a, b):
    if isinstance(c, (bool, np.bool_)):
        return a if c else b
    return SReal(tm.ite(as_bool_term(c), lift(a), lift(b)))


def is_symbolic(v) -> bool:
    if isinstance(v, SReal):
        return v.concrete() is None
    if isinstance(v, SBool):
        return v.t not in (tm.TRUE, tm.FALSE)
    if isinstance(v, np.ndarray) and v.dtype == object:
        return any(is_symbolic(x) for x in v.flat)
    if isinstance(v, (list, tuple)):
        return any(is_symbolic(x) for x in v)
    return False


def sym_sqrt(v):
    if isinstance(v, SReal):
        return v.sqrt()
    return math.sqrt(v)


# ------------------------------------------------------------------------------ exploration
class Path:
    __slots__ = ("pc", "outcome", "obligations", "assumed", "nonzero", "taken", "notes", "n_decisions")

    def __init__(self, c: PathCtx, outcome):
        self.pc = tuple(c.pc)
        self.outcome = outcome
        self.obligations = c.obligations
        self.assumed = c.assumed
        self.nonzero = c.nonzero
        self.taken = tuple(c.taken)
        self.notes = c.notes
        self.n_decisions = c.n_decisions


def explore(fn: Callable[[PathCtx], Any], feasible, max_paths: int = 20000) -> List[Path]:
    """Run `fn` once per feasible decision schedule (depth-first, by re-execution)."""
    work = [[]]
    paths: List[Path] = []
    while work:
        prefix = work.pop()
        c = PathCtx(prefix, feasible)
        _ACTIVE.append(c)
        try:
            try:
                out = fn(c)
                outcome = ("return", out)
            except PathInfeasible:
                outcome = None
            except Unsupported:
                raise
            except RecursionError:
                raise Unsupported("recursion limit during symbolic execution")
            except Exception as e:  # an exception escaping the harness
                outcome = ("raise", e)
        finally:
            _ACTIVE.pop()
        if len(c.taken) < len(c.prefix):
            raise EngineError("non-deterministic re-execution: schedule prefix not consumed")
        work.extend(c.alternatives)
        if outcome is not None:
            paths.append(Path(c, outcome))
        if len(paths) > max_paths:
            raise Unsupported(f"more than {max_paths} paths")
    return paths


class EngineError(Exception):
    pass
