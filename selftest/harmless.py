#!/usr/bin/env python3
"""Harmless (semantics-preserving) refactorings of functions under contract, applied to a scratch copy.
A check that raises an alarm (exit 1) or loses obligations (exit 2) on these is brittle.

usage: selftest/harmless.py <scratch-repo-dir>      then: VERIF_REPO=<dir> ./check Cnn --no-evidence
"""
import os
import sys

EDITS = [
    # (file, old, new)  -- each must match exactly once
    ("construct/flat/face.py",
     """        position = np.array(start_near, dtype=constants.DTYPE)
        indexes = list(range(4))
        indexes.sort(key=lambda i: f.norm(position - self.points[i].position))

        self.shift(-indexes[0])
""",
     """        target = np.array(start_near, dtype=constants.DTYPE)
        order = sorted(range(4), key=lambda corner: f.norm(target - self.points[corner].position))
        nearest = order[0]

        self.shift(-nearest)
"""),
    ("lists/vertex_list.py",
     """                for dupe in self.duplicated:
                    if dupe.vertex == vertex:
                        # a point that belongs to a slave patch
                        # has been found but we need one for a 'master' patch
                        raise VertexNotFoundError
""",
     """                if any(entry.vertex == vertex for entry in self.duplicated):
                    # a point that belongs to a slave patch
                    # has been found but we need one for a 'master' patch
                    raise VertexNotFoundError
"""),
    ("grading/relations.py",
     """    if abs(c2c_expansion - 1) > constants.TOL:
        return length * (1 - c2c_expansion) / (1 - c2c_expansion**count)

    return length / count
""",
     """    uniform = abs(c2c_expansion - 1) <= constants.TOL
    if uniform:
        return length / count

    numerator = length * (1 - c2c_expansion)
    return numerator / (1 - c2c_expansion**count)
"""),
    ("grading/chop.py",
     """        self.end_size, self.start_size = self.start_size, self.end_size

        if self.c2c_expansion is not None:
            self.c2c_expansion = 1 / self.c2c_expansion

        if self.total_expansion is not None:
            self.total_expansion = 1 / self.total_expansion
""",
     """        if self.total_expansion is not None:
            self.total_expansion = 1 / self.total_expansion

        if self.c2c_expansion is not None:
            self.c2c_expansion = 1 / self.c2c_expansion

        old_start = self.start_size
        self.start_size = self.end_size
        self.end_size = old_start
"""),
    ("util/functions.py",
     """    return origin + (point - origin) * ratio
""",
     """    offset = point - origin
    return offset * ratio + origin
"""),
    ("optimize/cell.py",
     """        return np.array([f.norm(points[edge[1]] - points[edge[0]]) for edge in self.edge_pairs])
""",
     """        lengths = []
        for start, end in self.edge_pairs:
            lengths.append(f.norm(points[end] - points[start]))

        return np.array(lengths)
"""),
    ("items/wires/wire.py",
     """        return self.vertices in [wire.vertices, wire.vertices[::-1]]
""",
     """        same = self.vertices == wire.vertices
        opposite = self.vertices == wire.vertices[::-1]
        return same or opposite
"""),
    ("optimize/grid.py",
     """        if len(junction.links) > 0:
            for indexed_link in junction.links:
                indexed_link.link.leader = position
                indexed_link.link.update()

                self.points[indexed_link.follower_index] = indexed_link.link.follower

            return self.quality

        return junction.quality
""",
     """        if not junction.links:
            return junction.quality

        for entry in junction.links:
            link = entry.link
            link.leader = position
            link.update()
            self.points[entry.follower_index] = link.follower

        return self.quality
"""),
]


def main():
    root = os.path.join(sys.argv[1], "src", "classy_blocks")
    for path, old, new in EDITS:
        p = os.path.join(root, path)
        s = open(p).read()
        if s.count(old) != 1:
            print("edit does not match exactly once:", path)
            return 2
        open(p, "w").write(s.replace(old, new))
        print("edited", path)
    return 0


if __name__ == "__main__":
    sys.exit(main())
