#!/bin/sh
# Builds /verif/.venv (python 3.12) offline: z3-solver + sympy (+cvc5, jsonschema) from the
# wheelhouse, plus a .pth that adds /venv's site-packages (numpy, scipy, nptyping: the
# repository's own third-party dependencies).  Idempotent.
set -e
cd "$(dirname "$0")"
V=.venv
if [ ! -x $V/bin/python ] || ! $V/bin/python -c "import z3, sympy, numpy, scipy" 2>/dev/null; then
  rm -rf $V
  /venv/bin/python -m venv $V
  PIP_NO_INDEX=1 $V/bin/pip install -q --no-index --find-links /opt/veriftools/wheels \
      z3-solver sympy mpmath cvc5 jsonschema >/dev/null
  SP=$($V/bin/python -c "import sysconfig; print(sysconfig.get_paths()['purelib'])")
  echo "import site; site.addsitedir('/venv/lib/python3.12/site-packages')" > "$SP/zz_base.pth"
fi
$V/bin/python -c "import z3, sympy, numpy, scipy; print('setup ok: z3', z3.get_version_string(), 'sympy', sympy.__version__, 'numpy', numpy.__version__)"
